import EchVerif.Dial.Lts
/-
  Invariants of the Dial transition system, for every script, every number of workers and every
  schedule. Layer A: structure (indices, order, pacing, outcome); layer B: counting (in-flight
  attempts, connections, errors); layer C: progress measure.
-/
namespace DialLts

def Worker.idx : Worker → Option Nat
  | .got k => some k | .dial k _ => some k | .sendErr k => some k | .sendConn k => some k
  | .idle => none | .exited => none

/-- index of the next target the feeder will hand out (`n` when it is done) -/
def fidx (n : Nat) : Feeder → Nat
  | .wait k => k | .send k => k | .done => n

theorem run_inv {P : St → Prop} (script : List Script)
    (hstep : ∀ s l s', P s → step script s l = some s' → P s')
    (s s' : St) (ls : List Label) (h : P s) (hr : run script s ls = some s') : P s' := by
  induction ls generalizing s with
  | nil => simp [run] at hr; subst hr; exact h
  | cons l ls ih =>
    simp only [run] at hr
    split at hr
    · simp at hr
    · rename_i s1 h1
      exact ih s1 (hstep s l s1 h h1) hr

/-! ### layer A -/

structure InvA (script : List Script) (nW : Nat) (s : St) : Prop where
  len : s.workers.length = nW
  fb : ∀ k, s.feeder = .send k ∨ s.feeder = .wait k → k < script.length
  order : s.handoffs = List.range (fidx script.length s.feeder)
  credit : ∀ k, s.feeder = .send k → s.credit = true
  pace : s.badPace = false
  retd : s.returned = true → s.ctxDone = true ∧ s.ret.isSome = true
  late : s.badLate = false
  exited : ∀ (w : Nat), s.workers[w]? = some Worker.exited → s.feeder = .done
  eclosed : s.errClosed = true → ∀ (w : Nat) (x : Worker), s.workers[w]? = some x → x = Worker.exited
  widx : ∀ (w : Nat) (x : Worker) (k : Nat), s.workers[w]? = some x → x.idx = some k → k < fidx script.length s.feeder
  ctx : s.ctxDone = true → s.parentDone = true ∨ s.returned = true

theorem replicate_idle (nW w : Nat) (x : Worker) (h : (List.replicate nW Worker.idle)[w]? = some x) :
    x = .idle := by
  rw [List.getElem?_replicate] at h
  split at h
  · cases h; rfl
  · cases h

theorem invA_init (script : List Script) (nW : Nat) : InvA script nW (init script.length nW) := by
  have hw : ∀ (w : Nat) (x : Worker) (k : Nat), (init script.length nW).workers[w]? = some x → x.idx = some k → False := by
    intro w x k hx hk
    simp only [init] at hx
    cases replicate_idle _ _ _ hx; simp [Worker.idx] at hk
  have he : ∀ (w : Nat), (init script.length nW).workers[w]? = some Worker.exited → False := by
    intro w hx
    simp only [init] at hx
    cases replicate_idle _ _ _ hx
  refine ⟨by simp [init], ?_, ?_, by simp [init], by simp [init], by simp [init], by simp [init],
    fun w h => (he w h).elim, by simp [init], fun w x k hx hk => (hw w x k hx hk).elim, by simp [init]⟩
  · cases script <;> simp [init]
  · cases script <;> simp [init, fidx]

theorem getElem?_set_cases {α} (l : List α) (w v : Nat) (x y : α) (h : (l.set w x)[v]? = some y) :
    (v = w ∧ y = x) ∨ (v ≠ w ∧ l[v]? = some y) := by
  rw [List.getElem?_set] at h
  split at h
  · split at h
    · cases h; left; exact ⟨by omega, rfl⟩
    · simp at h
  · right; exact ⟨by omega, h⟩



/-! inversion of `step`, one lemma per label -/

theorem step_parentCancel {script : List Script} {s s' : St} (h : step script s .parentCancel = some s') :
    s.parentDone = false ∧ s' = { s with parentDone := true, ctxDone := true } := by
  simp only [step] at h
  split at h
  · cases h
  · cases h; exact ⟨by simp_all, rfl⟩

theorem step_feederGo {script : List Script} {s s' : St} (h : step script s .feederGo = some s') :
    ∃ k, s.feeder = .wait k ∧ s' = { s with feeder := .send k, credit := true } := by
  simp only [step] at h
  split at h
  · cases h; exact ⟨_, by assumption, rfl⟩
  · cases h

theorem step_handoff {script : List Script} {s s' : St} {w : Nat} (h : step script s (.handoff w) = some s') :
    ∃ k, s.feeder = .send k ∧ s.workers[w]? = some .idle ∧
      s' = { s with workers := s.workers.set w (.got k),
                    feeder := if k + 1 < script.length then .wait (k + 1) else .done,
                    handoffs := s.handoffs ++ [k], badPace := s.badPace || !s.credit, credit := false } := by
  simp only [step] at h
  split at h
  · cases h; exact ⟨_, by assumption, by assumption, rfl⟩
  · cases h

theorem step_prep {script : List Script} {s s' : St} {w : Nat} (h : step script s (.prep w) = some s') :
    ∃ k, s.workers[w]? = some (.got k) ∧ k < script.length ∧
      (s' = { s with workers := s.workers.set w (.sendErr k) } ∨
       s' = { s with workers := s.workers.set w (.dial k s.ctxDone), inflight := s.inflight + 1,
                     maxInflight := max s.maxInflight (s.inflight + 1),
                     badLate := s.badLate || (s.returned && !s.ctxDone) }) := by
  simp only [step] at h
  split at h
  · rename_i k hk
    have hlt : k < script.length := by
      by_cases hlt : k < script.length
      · exact hlt
      · rw [List.getElem?_eq_none (by omega)] at h; cases h
    split at h
    · cases h; exact ⟨k, hk, hlt, Or.inl rfl⟩
    · cases h; exact ⟨k, hk, hlt, Or.inl rfl⟩
    · cases h; exact ⟨k, hk, hlt, Or.inr rfl⟩
    · cases h
  · cases h

theorem step_finish {script : List Script} {s s' : St} {w : Nat} {ok : Bool} (h : step script s (.finish w ok) = some s') :
    ∃ k late, s.workers[w]? = some (.dial k late) ∧
      ((ok = true ∧ script[k]? = some .ok ∧
        s' = { s with workers := s.workers.set w (.sendConn k), established := k :: s.established, inflight := s.inflight - 1 }) ∨
       (ok = false ∧ s' = { s with workers := s.workers.set w (.sendErr k), inflight := s.inflight - 1 })) := by
  simp only [step] at h
  split at h
  · rename_i k late hk
    split at h
    · rename_i hok
      split at h
      · cases h; exact ⟨k, late, hk, Or.inl ⟨hok, by assumption, rfl⟩⟩
      · cases h
    · cases h; exact ⟨k, late, hk, Or.inr ⟨by simp_all, rfl⟩⟩
  · cases h

theorem step_errRecv {script : List Script} {s s' : St} {w : Nat} (h : step script s (.errRecv w) = some s') :
    ∃ k, s.workers[w]? = some (.sendErr k) ∧ s.ret = none ∧
      s' = { s with workers := s.workers.set w .idle, errs := s.errs ++ [k],
                    feeder := match s.feeder with | .wait j => .send j | f => f,
                    credit := match s.feeder with | .wait _ => true | _ => s.credit } := by
  simp only [step] at h
  split at h
  · cases h; exact ⟨_, by assumption, by assumption, rfl⟩
  · cases h

theorem step_errDrop {script : List Script} {s s' : St} {w : Nat} (h : step script s (.errDrop w) = some s') :
    ∃ k, s.workers[w]? = some (.sendErr k) ∧ s.ctxDone = true ∧
      s' = { s with workers := s.workers.set w .idle } := by
  simp only [step] at h
  split at h
  · split at h
    · cases h; exact ⟨_, by assumption, by assumption, rfl⟩
    · cases h
  · cases h

theorem step_connRecv {script : List Script} {s s' : St} {w : Nat} (h : step script s (.connRecv w) = some s') :
    ∃ k, s.workers[w]? = some (.sendConn k) ∧ s.ret = none ∧
      s' = { s with workers := s.workers.set w .idle, ret := some (.conn k) } := by
  simp only [step] at h
  split at h
  · cases h; exact ⟨_, by assumption, by assumption, rfl⟩
  · cases h

theorem step_connClose {script : List Script} {s s' : St} {w : Nat} (h : step script s (.connClose w) = some s') :
    ∃ k, s.workers[w]? = some (.sendConn k) ∧ s.ctxDone = true ∧
      s' = { s with workers := s.workers.set w .idle, closed := k :: s.closed } := by
  simp only [step] at h
  split at h
  · split at h
    · cases h; exact ⟨_, by assumption, by assumption, rfl⟩
    · cases h
  · cases h

theorem step_workerExit {script : List Script} {s s' : St} {w : Nat} (h : step script s (.workerExit w) = some s') :
    s.workers[w]? = some .idle ∧ s.feeder = .done ∧ s' = { s with workers := s.workers.set w .exited } := by
  simp only [step] at h
  split at h
  · cases h; exact ⟨by assumption, by assumption, rfl⟩
  · cases h

theorem step_closeErr {script : List Script} {s s' : St} (h : step script s .closeErr = some s') :
    s.errClosed = false ∧ s.workers.all (· == .exited) = true ∧ s' = { s with errClosed := true } := by
  simp only [step] at h
  split at h
  · rename_i hc
    cases h
    simp only [Bool.and_eq_true, Bool.not_eq_true'] at hc
    exact ⟨hc.1, hc.2, rfl⟩
  · cases h

theorem step_collectClosed {script : List Script} {s s' : St} (h : step script s .collectClosed = some s') :
    s.ret = none ∧ s.errClosed = true ∧ s' = { s with ret := some (.errs s.errs) } := by
  simp only [step] at h
  split at h
  · split at h
    · cases h; exact ⟨by assumption, by assumption, rfl⟩
    · cases h
  · cases h

theorem step_collectCtx {script : List Script} {s s' : St} (h : step script s .collectCtx = some s') :
    s.ret = none ∧ s.ctxDone = true ∧ s' = { s with ret := some .ctxErr } := by
  simp only [step] at h
  split at h
  · split at h
    · cases h; exact ⟨by assumption, by assumption, rfl⟩
    · cases h
  · cases h

theorem step_ret {script : List Script} {s s' : St} (h : step script s .ret = some s') :
    s.ret.isSome = true ∧ s.returned = false ∧ s' = { s with returned := true, ctxDone := true } := by
  simp only [step] at h
  split at h
  · rename_i hc
    cases h
    simp only [Bool.and_eq_true, Bool.not_eq_true'] at hc
    exact ⟨hc.1, hc.2, rfl⟩
  · cases h



/-- updating one worker preserves the per-worker facts when the new state satisfies them -/
theorem set_exited {ws : List Worker} {w : Nat} {x : Worker} {P : Prop}
    (hold : ∀ (v : Nat), ws[v]? = some Worker.exited → P) (hx : x = .exited → P)
    (v : Nat) (h : (ws.set w x)[v]? = some Worker.exited) : P := by
  rcases getElem?_set_cases _ _ _ _ _ h with ⟨_, hy⟩ | ⟨_, hy⟩
  · exact hx hy.symm
  · exact hold v hy

theorem set_widx {ws : List Worker} {w : Nat} {x : Worker} {b : Nat}
    (hold : ∀ (v : Nat) (y : Worker) (k : Nat), ws[v]? = some y → y.idx = some k → k < b)
    (hx : ∀ k, x.idx = some k → k < b)
    (v : Nat) (y : Worker) (k : Nat) (h : (ws.set w x)[v]? = some y) (hk : y.idx = some k) : k < b := by
  rcases getElem?_set_cases _ _ _ _ _ h with ⟨_, hy⟩ | ⟨_, hy⟩
  · subst hy; exact hx k hk
  · exact hold v y k hy hk

theorem all_exited {ws : List Worker} (h : ws.all (· == .exited) = true) (v : Nat) (y : Worker)
    (hy : ws[v]? = some y) : y = .exited := by
  rw [List.all_eq_true] at h
  have := h y (List.mem_of_getElem? hy)
  simpa using this

theorem eclosed_absurd {ws : List Worker} {w : Nat} {old : Worker}
    (hall : ∀ (v : Nat) (y : Worker), ws[v]? = some y → y = Worker.exited)
    (hw : ws[w]? = some old) (hne : old ≠ .exited) : False := hne (hall w old hw)

theorem invA_step (script : List Script) (nW : Nat) (s s' : St) (l : Label)
    (h : InvA script nW s) (hs : step script s l = some s') : InvA script nW s' := by
  obtain ⟨h1, h2, h3, h4, h5, h6, h7, h8, h9, h10, h11⟩ := h
  cases l with
  | parentCancel =>
    obtain ⟨_, rfl⟩ := step_parentCancel hs
    exact ⟨h1, h2, h3, h4, h5, fun hr => ⟨rfl, (h6 hr).2⟩, h7, h8, h9, h10, fun _ => Or.inl rfl⟩
  | feederGo =>
    obtain ⟨k, hf, rfl⟩ := step_feederGo hs
    refine ⟨h1, ?_, ?_, fun _ _ => rfl, h5, h6, h7, ?_, h9, ?_, h11⟩
    · intro j hj; simp only at hj
      rcases hj with hj | hj
      · cases hj; exact h2 k (Or.inr hf)
      · cases hj
    · simpa [fidx, hf] using h3
    · intro w hw; have := h8 w hw; rw [hf] at this; cases this
    · simpa [fidx, hf] using h10
  | handoff w =>
    obtain ⟨k, hf, hw, rfl⟩ := step_handoff hs
    have hk := h2 k (Or.inl hf)
    have hcr := h4 k hf
    refine ⟨by simpa using h1, ?_, ?_, ?_, by simp [h5, hcr], h6, h7, ?_, ?_, ?_, h11⟩
    · intro j hj; simp only at hj
      split at hj
      · rcases hj with hj | hj
        · cases hj
        · cases hj; assumption
      · rcases hj with hj | hj <;> cases hj
    · simp only [hf, fidx] at h3
      simp only [h3]
      split
      · simp [fidx, List.range_succ]
      · simp only [fidx]
        have : script.length = k + 1 := by omega
        rw [this, List.range_succ]
    · intro j hj; simp only at hj
      split at hj <;> cases hj
    · intro v hv
      simp only at hv ⊢
      refine set_exited (P := (if k + 1 < script.length then Feeder.wait (k + 1) else Feeder.done) = Feeder.done) ?_ (by intro h; cases h) v hv
      intro v hv; have := h8 v hv; rw [hf] at this; cases this
    · intro he v y hy
      exact (eclosed_absurd (h9 he) hw (by simp)).elim
    · intro v y j hy hj
      simp only at hy ⊢
      have hb : fidx script.length (if k + 1 < script.length then Feeder.wait (k + 1) else Feeder.done) = k + 1 := by
        split
        · rfl
        · simp only [fidx]; omega
      rw [hb]
      refine set_widx (b := k + 1) ?_ ?_ v y j hy hj
      · intro v y j hy hj
        have := h10 v y j hy hj
        simp only [hf, fidx] at this; omega
      · intro j hj; simp [Worker.idx] at hj; omega
  | prep w =>
    obtain ⟨k, hw, hk, rfl | rfl⟩ := step_prep hs
    · refine ⟨by simpa using h1, h2, h3, h4, h5, h6, h7, ?_, ?_, ?_, h11⟩
      · exact fun v hv => set_exited h8 (by intro h; cases h) v hv
      · exact fun he => (eclosed_absurd (h9 he) hw (by simp)).elim
      · exact fun v y j hy hj => set_widx h10 (fun j hj => h10 w _ j hw (by simpa [Worker.idx] using hj)) v y j hy hj
    · refine ⟨by simpa using h1, h2, h3, h4, h5, h6, ?_, ?_, ?_, ?_, h11⟩
      · simp only [h7, Bool.false_or, Bool.and_eq_false_iff, Bool.not_eq_false']
        by_cases hr : s.returned = true
        · right; exact (h6 hr).1
        · left; simpa using hr
      · exact fun v hv => set_exited h8 (by intro h; cases h) v hv
      · exact fun he => (eclosed_absurd (h9 he) hw (by simp)).elim
      · exact fun v y j hy hj => set_widx h10 (fun j hj => h10 w _ j hw (by simpa [Worker.idx] using hj)) v y j hy hj
  | finish w ok =>
    obtain ⟨k, late, hw, ⟨_, _, rfl⟩ | ⟨_, rfl⟩⟩ := step_finish hs
    · refine ⟨by simpa using h1, h2, h3, h4, h5, h6, h7, ?_, ?_, ?_, h11⟩
      · exact fun v hv => set_exited h8 (by intro h; cases h) v hv
      · exact fun he => (eclosed_absurd (h9 he) hw (by simp)).elim
      · exact fun v y j hy hj => set_widx h10 (fun j hj => h10 w _ j hw (by simpa [Worker.idx] using hj)) v y j hy hj
    · refine ⟨by simpa using h1, h2, h3, h4, h5, h6, h7, ?_, ?_, ?_, h11⟩
      · exact fun v hv => set_exited h8 (by intro h; cases h) v hv
      · exact fun he => (eclosed_absurd (h9 he) hw (by simp)).elim
      · exact fun v y j hy hj => set_widx h10 (fun j hj => h10 w _ j hw (by simpa [Worker.idx] using hj)) v y j hy hj
  | errRecv w =>
    obtain ⟨k, hw, hr, rfl⟩ := step_errRecv hs
    have hfi : fidx script.length (match s.feeder with | .wait j => .send j | f => f) = fidx script.length s.feeder := by
      cases s.feeder <;> rfl
    refine ⟨by simpa using h1, ?_, ?_, ?_, h5, h6, h7, ?_, ?_, ?_, h11⟩
    · intro j hj; simp only at hj
      cases hf : s.feeder with
      | wait i => rw [hf] at hj; simp only at hj; rcases hj with hj | hj <;> cases hj; exact h2 _ (Or.inr hf)
      | send i => rw [hf] at hj; simp only at hj; rcases hj with hj | hj <;> cases hj; exact h2 _ (Or.inl hf)
      | done => rw [hf] at hj; simp only at hj; rcases hj with hj | hj <;> cases hj
    · simp only [hfi]; exact h3
    · intro j hj; simp only at hj ⊢
      cases hf : s.feeder with
      | wait i => rfl
      | send i => rw [hf] at hj; simp only at hj; cases hj; simpa using h4 _ hf
      | done => rw [hf] at hj; cases hj
    · intro v hv
      simp only at hv ⊢
      refine set_exited (P := (match s.feeder with | .wait j => Feeder.send j | f => f) = Feeder.done) ?_ (by intro h; cases h) v hv
      intro v hv; rw [h8 v hv]
    · exact fun he => (eclosed_absurd (h9 he) hw (by simp)).elim
    · intro v y j hy hj
      simp only at hy ⊢
      rw [hfi]
      exact set_widx h10 (fun j hj => by simp [Worker.idx] at hj) v y j hy hj
  | errDrop w =>
    obtain ⟨k, hw, _, rfl⟩ := step_errDrop hs
    refine ⟨by simpa using h1, h2, h3, h4, h5, h6, h7, ?_, ?_, ?_, h11⟩
    · exact fun v hv => set_exited h8 (by intro h; cases h) v hv
    · exact fun he => (eclosed_absurd (h9 he) hw (by simp)).elim
    · exact fun v y j hy hj => set_widx h10 (fun j hj => by simp [Worker.idx] at hj) v y j hy hj
  | connRecv w =>
    obtain ⟨k, hw, hr, rfl⟩ := step_connRecv hs
    refine ⟨by simpa using h1, h2, h3, h4, h5, ?_, h7, ?_, ?_, ?_, h11⟩
    · intro hret; exact ⟨(h6 hret).1, rfl⟩
    · exact fun v hv => set_exited h8 (by intro h; cases h) v hv
    · exact fun he => (eclosed_absurd (h9 he) hw (by simp)).elim
    · exact fun v y j hy hj => set_widx h10 (fun j hj => by simp [Worker.idx] at hj) v y j hy hj
  | connClose w =>
    obtain ⟨k, hw, _, rfl⟩ := step_connClose hs
    refine ⟨by simpa using h1, h2, h3, h4, h5, h6, h7, ?_, ?_, ?_, h11⟩
    · exact fun v hv => set_exited h8 (by intro h; cases h) v hv
    · exact fun he => (eclosed_absurd (h9 he) hw (by simp)).elim
    · exact fun v y j hy hj => set_widx h10 (fun j hj => by simp [Worker.idx] at hj) v y j hy hj
  | workerExit w =>
    obtain ⟨hw, hf, rfl⟩ := step_workerExit hs
    refine ⟨by simpa using h1, h2, h3, h4, h5, h6, h7, ?_, ?_, ?_, h11⟩
    · exact fun v hv => set_exited h8 (fun _ => hf) v hv
    · exact fun he => (eclosed_absurd (h9 he) hw (by simp)).elim
    · exact fun v y j hy hj => set_widx h10 (fun j hj => by simp [Worker.idx] at hj) v y j hy hj
  | closeErr =>
    obtain ⟨_, hall, rfl⟩ := step_closeErr hs
    exact ⟨h1, h2, h3, h4, h5, h6, h7, h8, fun _ v y hy => all_exited hall v y hy, h10, h11⟩
  | collectClosed =>
    obtain ⟨_, _, rfl⟩ := step_collectClosed hs
    exact ⟨h1, h2, h3, h4, h5, fun hr => ⟨(h6 hr).1, rfl⟩, h7, h8, h9, h10, h11⟩
  | collectCtx =>
    obtain ⟨_, _, rfl⟩ := step_collectCtx hs
    exact ⟨h1, h2, h3, h4, h5, fun hr => ⟨(h6 hr).1, rfl⟩, h7, h8, h9, h10, h11⟩
  | ret =>
    obtain ⟨hr, _, rfl⟩ := step_ret hs
    exact ⟨h1, h2, h3, h4, h5, fun _ => ⟨rfl, hr⟩, h7, h8, h9, h10, fun _ => Or.inr rfl⟩



/-! ### layer B: counting -/

def isDial : Worker → Bool
  | .dial _ _ => true
  | _ => false

/-- the worker holds the established connection to target `j` -/
def holdsConn (j : Nat) : Worker → Bool
  | .sendConn k => k == j
  | _ => false

/-- the worker is responsible for target `j` (received, not yet reported) -/
def holds (j : Nat) (x : Worker) : Bool := x.idx == some j

theorem countP_set {α} (p : α → Bool) (l : List α) (w : Nat) (old x : α) (h : l[w]? = some old) :
    (l.set w x).countP p + (if p old then 1 else 0) = l.countP p + (if p x then 1 else 0) := by
  induction l generalizing w with
  | nil => simp at h
  | cons a t ih =>
    cases w with
    | zero =>
      simp at h; subst h
      simp only [List.set_cons_zero, List.countP_cons]
      omega
    | succ w =>
      simp at h
      have := ih w h
      simp only [List.set_cons_succ, List.countP_cons]
      omega

theorem countP_set_same {α} (p : α → Bool) (l : List α) (w : Nat) (old x : α) (h : l[w]? = some old)
    (hp : p old = p x) : (l.set w x).countP p = l.countP p := by
  have := countP_set p l w old x h
  rw [hp] at this
  omega

theorem countP_all_exited {ws : List Worker} (p : Worker → Bool) (hp : p .exited = false)
    (h : ∀ (v : Nat) (y : Worker), ws[v]? = some y → y = Worker.exited) : ws.countP p = 0 := by
  rw [List.countP_eq_zero]
  intro y hy
  obtain ⟨v, hv⟩ := List.getElem?_of_mem hy
  rw [h v y hv, hp]; simp

structure InvB (script : List Script) (nW : Nat) (s : St) : Prop where
  infl : s.inflight = s.workers.countP isDial
  maxi : s.maxInflight ≤ nW
  conns : ∀ j, s.workers.countP (holdsConn j) + s.closed.count j + (if s.ret = some (.conn j) then 1 else 0)
            = s.established.count j
  errsAcc : s.ret = none → s.ctxDone = false → ∀ j, s.errs.count j + s.workers.countP (holds j) = s.handoffs.count j
  errsAll : ∀ ks, s.ret = some (.errs ks) → s.parentDone = false → ∀ j, ks.count j = (List.range script.length).count j

theorem invB_init (script : List Script) (nW : Nat) : InvB script nW (init script.length nW) := by
  have hc : ∀ (p : Worker → Bool), p .idle = false → (List.replicate nW Worker.idle).countP p = 0 := by
    intro p hp
    rw [List.countP_eq_zero]
    intro y hy
    rw [List.eq_of_mem_replicate hy, hp]; simp
  refine ⟨?_, by simp [init], ?_, ?_, by simp [init]⟩
  · simp [init, hc isDial rfl]
  · intro j; simp [init, hc (holdsConn j) rfl]
  · intro _ _ j; simp [init, hc (holds j) (by simp [holds, Worker.idx])]



theorem holds_idx (j : Nat) (x y : Worker) (h : x.idx = y.idx) : holds j x = holds j y := by
  simp [holds, h]

theorem invB_step (script : List Script) (nW : Nat) (hn : 0 < nW) (s s' : St) (l : Label)
    (ha : InvA script nW s) (h : InvB script nW s) (hs : step script s l = some s') : InvB script nW s' := by
  obtain ⟨b1, b2, b3, b4, b5⟩ := h
  cases l with
  | parentCancel =>
    obtain ⟨_, rfl⟩ := step_parentCancel hs
    exact ⟨b1, b2, b3, fun _ hc => by simp at hc, fun ks _ hp => by simp at hp⟩
  | feederGo =>
    obtain ⟨k, hf, rfl⟩ := step_feederGo hs
    exact ⟨b1, b2, b3, b4, b5⟩
  | handoff w =>
    obtain ⟨k, hf, hw, rfl⟩ := step_handoff hs
    refine ⟨?_, b2, ?_, ?_, b5⟩
    · simp only; rw [countP_set_same isDial _ _ _ (Worker.got k) hw rfl]; exact b1
    · intro j; simp only; rw [countP_set_same (holdsConn j) _ _ _ (Worker.got k) hw rfl]; exact b3 j
    · intro hr hc j
      have cs := countP_set (holds j) _ w _ (Worker.got k) hw
      have := b4 hr hc j
      simp only [List.count_append, List.count_singleton]
      by_cases hkj : k = j <;> simp [hkj, holds, Worker.idx] at cs ⊢ <;> omega
  | prep w =>
    obtain ⟨k, hw, hk, rfl | rfl⟩ := step_prep hs
    · refine ⟨?_, b2, ?_, ?_, b5⟩
      · simp only; rw [countP_set_same isDial _ _ _ (Worker.sendErr k) hw rfl]; exact b1
      · intro j; simp only; rw [countP_set_same (holdsConn j) _ _ _ (Worker.sendErr k) hw rfl]; exact b3 j
      · intro hr hc j; simp only
        rw [countP_set_same (holds j) _ _ _ (Worker.sendErr k) hw (holds_idx j _ _ rfl)]; exact b4 hr hc j
    · have cs := countP_set isDial _ w _ (Worker.dial k s.ctxDone) hw
      simp only [isDial] at cs
      have hle := List.countP_le_length (p := isDial) (l := s.workers.set w (Worker.dial k s.ctxDone))
      rw [List.length_set, ha.len] at hle
      refine ⟨?_, ?_, ?_, ?_, b5⟩
      · simp only; simp at cs; omega
      · simp only; simp at cs; omega
      · intro j; simp only; rw [countP_set_same (holdsConn j) _ _ _ (Worker.dial k s.ctxDone) hw rfl]; exact b3 j
      · intro hr hc j; simp only
        rw [countP_set_same (holds j) _ _ _ (Worker.dial k s.ctxDone) hw (holds_idx j _ _ rfl)]; exact b4 hr hc j
  | finish w ok =>
    obtain ⟨k, late, hw, ⟨_, _, rfl⟩ | ⟨_, rfl⟩⟩ := step_finish hs
    · have cs := countP_set isDial _ w _ (Worker.sendConn k) hw
      simp [isDial] at cs
      refine ⟨?_, b2, ?_, ?_, b5⟩
      · simp only; omega
      · intro j
        have cj := countP_set (holdsConn j) _ w _ (Worker.sendConn k) hw
        have := b3 j
        simp only [List.count_cons]
        by_cases hkj : k = j <;> simp [hkj, holdsConn] at cj ⊢ <;> omega
      · intro hr hc j; simp only
        rw [countP_set_same (holds j) _ _ _ (Worker.sendConn k) hw (holds_idx j _ _ rfl)]; exact b4 hr hc j
    · have cs := countP_set isDial _ w _ (Worker.sendErr k) hw
      simp [isDial] at cs
      refine ⟨?_, b2, ?_, ?_, b5⟩
      · simp only; omega
      · intro j; simp only; rw [countP_set_same (holdsConn j) _ _ _ (Worker.sendErr k) hw rfl]; exact b3 j
      · intro hr hc j; simp only
        rw [countP_set_same (holds j) _ _ _ (Worker.sendErr k) hw (holds_idx j _ _ rfl)]; exact b4 hr hc j
  | errRecv w =>
    obtain ⟨k, hw, hr, rfl⟩ := step_errRecv hs
    refine ⟨?_, b2, ?_, ?_, ?_⟩
    · simp only; rw [countP_set_same isDial _ _ _ Worker.idle hw rfl]; exact b1
    · intro j; simp only; rw [countP_set_same (holdsConn j) _ _ _ Worker.idle hw rfl]; exact b3 j
    · intro hr' hc j
      have cs := countP_set (holds j) _ w _ Worker.idle hw
      have := b4 hr hc j
      simp only [List.count_append, List.count_singleton]
      by_cases hkj : k = j <;> simp [hkj, holds, Worker.idx] at cs ⊢ <;> omega
    · intro ks hks; simp only [hr] at hks; cases hks
  | errDrop w =>
    obtain ⟨k, hw, hc, rfl⟩ := step_errDrop hs
    refine ⟨?_, b2, ?_, ?_, b5⟩
    · simp only; rw [countP_set_same isDial _ _ _ Worker.idle hw rfl]; exact b1
    · intro j; simp only; rw [countP_set_same (holdsConn j) _ _ _ Worker.idle hw rfl]; exact b3 j
    · intro _ hc'; simp only [hc] at hc'; cases hc'
  | connRecv w =>
    obtain ⟨k, hw, hr, rfl⟩ := step_connRecv hs
    refine ⟨?_, b2, ?_, ?_, ?_⟩
    · simp only; rw [countP_set_same isDial _ _ _ Worker.idle hw rfl]; exact b1
    · intro j
      have cj := countP_set (holdsConn j) _ w _ Worker.idle hw
      have := b3 j
      simp only [hr] at this
      by_cases hkj : k = j <;> simp [hkj, holdsConn] at cj this ⊢ <;> omega
    · intro hr'; simp at hr'
    · intro ks hks; simp at hks
  | connClose w =>
    obtain ⟨k, hw, hc, rfl⟩ := step_connClose hs
    refine ⟨?_, b2, ?_, ?_, b5⟩
    · simp only; rw [countP_set_same isDial _ _ _ Worker.idle hw rfl]; exact b1
    · intro j
      have cj := countP_set (holdsConn j) _ w _ Worker.idle hw
      have := b3 j
      simp only [List.count_cons]
      by_cases hkj : k = j <;> simp [hkj, holdsConn] at cj this ⊢ <;> omega
    · intro _ hc'; simp only [hc] at hc'; cases hc'
  | workerExit w =>
    obtain ⟨hw, hf, rfl⟩ := step_workerExit hs
    refine ⟨?_, b2, ?_, ?_, b5⟩
    · simp only; rw [countP_set_same isDial _ _ _ Worker.exited hw rfl]; exact b1
    · intro j; simp only; rw [countP_set_same (holdsConn j) _ _ _ Worker.exited hw rfl]; exact b3 j
    · intro hr hc j; simp only
      rw [countP_set_same (holds j) _ _ _ Worker.exited hw (holds_idx j _ _ rfl)]; exact b4 hr hc j
  | closeErr =>
    obtain ⟨_, hall, rfl⟩ := step_closeErr hs
    exact ⟨b1, b2, b3, b4, b5⟩
  | collectClosed =>
    obtain ⟨hr, he, rfl⟩ := step_collectClosed hs
    refine ⟨b1, b2, ?_, by intro h; simp at h, ?_⟩
    · intro j; have := b3 j; simp only [hr] at this; simpa using this
    · intro ks hks hp j
      simp only [Option.some.injEq, Ret.errs.injEq] at hks
      subst hks
      simp only at hp
      have hret : s.returned = false := by
        cases hret : s.returned with
        | false => rfl
        | true => have := (ha.retd hret).2; rw [hr] at this; simp at this
      have hc : s.ctxDone = false := by
        cases hc : s.ctxDone with
        | false => rfl
        | true => rcases ha.ctx hc with h | h
                  · rw [hp] at h; cases h
                  · rw [hret] at h; cases h
      have hall := ha.eclosed he
      have hlen : 0 < s.workers.length := by rw [ha.len]; exact hn
      have h0 : s.workers[0]? = some s.workers[0] := List.getElem?_eq_getElem hlen
      have hfd : s.feeder = .done := ha.exited 0 (by rw [h0, hall 0 _ h0])
      have := b4 hr hc j
      rw [countP_all_exited (holds j) (by simp [holds, Worker.idx]) hall, ha.order, hfd] at this
      simpa [fidx] using this
  | collectCtx =>
    obtain ⟨hr, _, rfl⟩ := step_collectCtx hs
    refine ⟨b1, b2, ?_, by intro h; simp at h, by intro ks hks; simp at hks⟩
    intro j; have := b3 j; simp only [hr] at this; simpa using this
  | ret =>
    obtain ⟨hr, _, rfl⟩ := step_ret hs
    exact ⟨b1, b2, b3, by intro _ hc; simp at hc, b5⟩



/-! ### layer C: progress measure -/

def wWeight : Worker → Nat
  | .exited => 0 | .idle => 1 | .sendErr _ => 2 | .sendConn _ => 2 | .dial _ _ => 3 | .got _ => 4

def fWeight (n : Nat) : Feeder → Nat
  | .send k => 10 * (n - k)
  | .wait k => 10 * (n - k) + 1
  | .done => 0

def retWeight (s : St) : Nat := if s.returned then 0 else if s.ret.isSome then 1 else 2

def wSum (ws : List Worker) : Nat := (ws.map wWeight).sum

/-- strictly decreases with every step (see `measure_step`) -/
def measure (n : Nat) (s : St) : Nat :=
  fWeight n s.feeder + wSum s.workers + (if s.errClosed then 0 else 1) + retWeight s +
    (if s.parentDone then 0 else 1)

theorem wSum_set (ws : List Worker) (w : Nat) (old x : Worker) (h : ws[w]? = some old) :
    wSum (ws.set w x) + wWeight old = wSum ws + wWeight x := by
  unfold wSum
  induction ws generalizing w with
  | nil => simp at h
  | cons a t ih =>
    cases w with
    | zero => simp at h; subst h; simp only [List.set_cons_zero, List.map_cons, List.sum_cons]; omega
    | succ w =>
      simp at h
      have := ih w h
      simp only [List.set_cons_succ, List.map_cons, List.sum_cons]; omega

theorem retWeight_none {script : List Script} {nW : Nat} {s : St} (ha : InvA script nW s) (hr : s.ret = none) :
    s.returned = false := by
  cases hret : s.returned with
  | false => rfl
  | true => have := (ha.retd hret).2; rw [hr] at this; simp at this

theorem measure_step (script : List Script) (nW : Nat) (s s' : St) (l : Label)
    (ha : InvA script nW s) (hs : step script s l = some s') :
    measure script.length s' < measure script.length s := by
  unfold measure
  cases l with
  | parentCancel =>
    obtain ⟨hp, rfl⟩ := step_parentCancel hs
    simp [hp, retWeight]
  | feederGo =>
    obtain ⟨k, hf, rfl⟩ := step_feederGo hs
    simp [hf, fWeight, retWeight]
  | handoff w =>
    obtain ⟨k, hf, hw, rfl⟩ := step_handoff hs
    have hk := ha.fb k (Or.inl hf)
    have := wSum_set s.workers w _ (Worker.got k) hw
    simp only [wWeight] at this
    simp only [hf, retWeight]
    split
    · simp only [fWeight]; omega
    · simp only [fWeight]; omega
  | prep w =>
    obtain ⟨k, hw, hk, rfl | rfl⟩ := step_prep hs
    · have := wSum_set s.workers w _ (Worker.sendErr k) hw
      simp only [wWeight] at this
      simp only [retWeight]; omega
    · have := wSum_set s.workers w _ (Worker.dial k s.ctxDone) hw
      simp only [wWeight] at this
      simp only [retWeight]; omega
  | finish w ok =>
    obtain ⟨k, late, hw, ⟨_, _, rfl⟩ | ⟨_, rfl⟩⟩ := step_finish hs
    · have := wSum_set s.workers w _ (Worker.sendConn k) hw
      simp only [wWeight] at this
      simp only [retWeight]; omega
    · have := wSum_set s.workers w _ (Worker.sendErr k) hw
      simp only [wWeight] at this
      simp only [retWeight]; omega
  | errRecv w =>
    obtain ⟨k, hw, hr, rfl⟩ := step_errRecv hs
    have := wSum_set s.workers w _ Worker.idle hw
    simp only [wWeight] at this
    have hf : fWeight script.length (match s.feeder with | .wait j => .send j | f => f) ≤ fWeight script.length s.feeder := by
      cases s.feeder <;> simp [fWeight]
    simp only [retWeight]; omega
  | errDrop w =>
    obtain ⟨k, hw, _, rfl⟩ := step_errDrop hs
    have := wSum_set s.workers w _ Worker.idle hw
    simp only [wWeight] at this
    simp only [retWeight]; omega
  | connRecv w =>
    obtain ⟨k, hw, hr, rfl⟩ := step_connRecv hs
    have := wSum_set s.workers w _ Worker.idle hw
    simp only [wWeight] at this
    simp only [retWeight, hr, retWeight_none ha hr]
    simp; omega
  | connClose w =>
    obtain ⟨k, hw, _, rfl⟩ := step_connClose hs
    have := wSum_set s.workers w _ Worker.idle hw
    simp only [wWeight] at this
    simp only [retWeight]; omega
  | workerExit w =>
    obtain ⟨hw, _, rfl⟩ := step_workerExit hs
    have := wSum_set s.workers w _ Worker.exited hw
    simp only [wWeight] at this
    simp only [retWeight]; omega
  | closeErr =>
    obtain ⟨he, _, rfl⟩ := step_closeErr hs
    simp [he, retWeight]
  | collectClosed =>
    obtain ⟨hr, _, rfl⟩ := step_collectClosed hs
    simp [retWeight, hr, retWeight_none ha hr]
  | collectCtx =>
    obtain ⟨hr, _, rfl⟩ := step_collectCtx hs
    simp [retWeight, hr, retWeight_none ha hr]
  | ret =>
    obtain ⟨hr, hn, rfl⟩ := step_ret hs
    simp [retWeight, hr, hn]



/-- a step other than the caller cancelling -/
def isSystem : Label → Bool
  | .parentCancel => false
  | _ => true

theorem progress (script : List Script) (nW : Nat) (hn : 0 < nW) (s : St)
    (ha : InvA script nW s) (ht : terminal s = false) :
    ∃ l, isSystem l = true ∧ (step script s l).isSome = true := by
  by_cases hbusy : ∃ (w : Nat) (x : Worker), s.workers[w]? = some x ∧ x ≠ .idle ∧ x ≠ .exited
  · obtain ⟨w, x, hw, hni, hne⟩ := hbusy
    cases x with
    | idle => exact absurd rfl hni
    | exited => exact absurd rfl hne
    | got k =>
      have hk : k < script.length := by
        have := ha.widx w _ k hw rfl
        cases hf : s.feeder with
        | wait i => rw [hf] at this; simp only [fidx] at this; have := ha.fb i (Or.inr hf); omega
        | send i => rw [hf] at this; simp only [fidx] at this; have := ha.fb i (Or.inl hf); omega
        | done => rw [hf] at this; simpa [fidx] using this
      refine ⟨.prep w, rfl, ?_⟩
      simp only [step, hw, List.getElem?_eq_getElem hk]
      cases script[k] <;> rfl
    | dial k late =>
      exact ⟨.finish w false, rfl, by simp [step, hw]⟩
    | sendErr k =>
      cases hr : s.ret with
      | none => exact ⟨.errRecv w, rfl, by simp [step, hw, hr]⟩
      | some r =>
        cases hc : s.ctxDone with
        | true => exact ⟨.errDrop w, rfl, by simp [step, hw, hc]⟩
        | false =>
          have : s.returned = false := by
            cases hret : s.returned with
            | false => rfl
            | true => have := (ha.retd hret).1; rw [hc] at this; cases this
          exact ⟨.ret, rfl, by simp [step, hr, this]⟩
    | sendConn k =>
      cases hr : s.ret with
      | none => exact ⟨.connRecv w, rfl, by simp [step, hw, hr]⟩
      | some r =>
        cases hc : s.ctxDone with
        | true => exact ⟨.connClose w, rfl, by simp [step, hw, hc]⟩
        | false =>
          have : s.returned = false := by
            cases hret : s.returned with
            | false => rfl
            | true => have := (ha.retd hret).1; rw [hc] at this; cases this
          exact ⟨.ret, rfl, by simp [step, hr, this]⟩
  · have hidle : ∀ (w : Nat) (x : Worker), s.workers[w]? = some x → x = .idle ∨ x = .exited := by
      intro w x hw
      by_cases h1 : x = .idle
      · exact Or.inl h1
      · by_cases h2 : x = .exited
        · exact Or.inr h2
        · exact absurd ⟨w, x, hw, h1, h2⟩ hbusy
    have hlen : 0 < s.workers.length := by rw [ha.len]; exact hn
    have h0 : s.workers[0]? = some s.workers[0] := List.getElem?_eq_getElem hlen
    cases hf : s.feeder with
    | wait k => exact ⟨.feederGo, rfl, by simp [step, hf]⟩
    | send k =>
      rcases hidle 0 _ h0 with h | h
      · exact ⟨.handoff 0, rfl, by rw [h] at h0; simp [step, hf, h0]⟩
      · rw [h] at h0; have := ha.exited 0 h0; rw [hf] at this; cases this
    | done =>
      by_cases hex : ∃ (w : Nat), s.workers[w]? = some Worker.idle
      · obtain ⟨w, hw⟩ := hex
        exact ⟨.workerExit w, rfl, by simp [step, hw, hf]⟩
      · have hall : s.workers.all (· == .exited) = true := by
          rw [List.all_eq_true]
          intro y hy
          obtain ⟨v, hv⟩ := List.getElem?_of_mem hy
          rcases hidle v y hv with h | h
          · subst h; exact absurd ⟨v, hv⟩ hex
          · subst h; rfl
        cases he : s.errClosed with
        | false => exact ⟨.closeErr, rfl, by simp only [step, he, hall]; rfl⟩
        | true =>
          cases hr : s.ret with
          | none => exact ⟨.collectClosed, rfl, by simp [step, hr, he]⟩
          | some r =>
            cases hret : s.returned with
            | false => exact ⟨.ret, rfl, by simp [step, hr, hret]⟩
            | true =>
              have : terminal s = true := by simp [terminal, hret, he, hf, hall]
              rw [ht] at this; cases this

end DialLts
