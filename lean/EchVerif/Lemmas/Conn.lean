import EchVerif.ECH.Conn
import EchVerif.Lemmas.Hello
/-! frame lemmas for the Conn model: what `process` / `handle` may change -/
open Wire TLS
namespace ECH

theorem processCore_frame (H : Hpke) (st st' : St) (h : Hello) (r : Bool) (i : Option Hello)
    (hp : processCore H st h r = .ok (i, st')) :
    (i = none ∧ st' = st) ∨
    ∃ inner pt c cfg ech, i = some inner ∧ st' = { st with ctx := some c, ctxConfig := cfg } ∧
      h.d.ech = some ech ∧ keyLoop H st h ech st.keys = .opened pt c cfg ∧ decodeInner h pt = .ok inner := by
  unfold processCore at hp
  split at hp
  · simp only [Except.ok.injEq, Prod.mk.injEq] at hp
    exact Or.inl ⟨hp.1.symm, hp.2.symm⟩
  · rename_i ech hech
    split at hp
    · simp only [Except.ok.injEq, Prod.mk.injEq] at hp
      exact Or.inl ⟨hp.1.symm, hp.2.symm⟩
    · split at hp
      · simp at hp
      · split at hp
        · simp at hp
        · simp only [Except.ok.injEq, Prod.mk.injEq] at hp
          exact Or.inl ⟨hp.1.symm, hp.2.symm⟩
      · rename_i pt c cfg hk
        split at hp
        · simp at hp
        · rename_i inner hd
          simp only [Except.ok.injEq, Prod.mk.injEq] at hp
          exact Or.inr ⟨inner, pt, c, cfg, ech, hp.1.symm, hp.2.symm, hech, hk, hd⟩

theorem process_frame (H : Hpke) (st st' : St) (h : Hello) (r : Bool) (i : Option Hello)
    (hp : process H st h r = .ok (i, st')) :
    (i = none ∧ st' = st) ∨
    ∃ inner pt c cfg ech, i = some inner ∧ st' = { st with ctx := some c, ctxConfig := cfg } ∧
      h.d.ech = some ech ∧ keyLoop H st h ech st.keys = .opened pt c cfg ∧ decodeInner h pt = .ok inner := by
  unfold process at hp
  split at hp
  · split at hp
    · simp at hp
    · exact processCore_frame H st st' h true i hp
  · exact processCore_frame H st st' h false i hp

/-- `process` returning no inner hello leaves the state untouched -/
theorem process_none (H : Hpke) (st st' : St) (h : Hello) (r : Bool)
    (hp : process H st h r = .ok (none, st')) : st' = st := by
  rcases process_frame H st st' h r none hp with ⟨_, h1⟩ | ⟨_, _, _, _, _, h2, _⟩
  · exact h1
  · simp at h2

theorem handle_inv (H : Hpke) (st st' : St) (record : Bytes) (r : Bool) (outer : Hello) (i : Option Hello)
    (hh : handle H st record r = .ok (outer, i, st')) :
    parseClientHello (record.drop 5) = .ok outer ∧ outer.d.hasEOE = false ∧
    ¬ (¬ st.keys.isEmpty ∧ (outer.d.ech.map (·.typ)) = some 1) ∧
    process H st outer r = .ok (i, st') ∧ (r = true → retryCheck st i = .ok ()) := by
  unfold handle at hh
  split at hh
  · simp at hh
  · rename_i o ho
    split at hh
    · simp at hh
    · rename_i heoe
      split at hh
      · simp at hh
      · rename_i hty
        split at hh
        · simp at hh
        · rename_i inner st1 hproc
          split at hh
          · rename_i hr
            split at hh
            · simp at hh
            · rename_i hrc
              simp only [Except.ok.injEq, Prod.mk.injEq] at hh
              obtain ⟨rfl, rfl, rfl⟩ := hh
              exact ⟨ho, by simpa using heoe, hty, hproc, fun _ => hrc⟩
          · rename_i hr
            simp only [Except.ok.injEq, Prod.mk.injEq] at hh
            obtain ⟨rfl, rfl, rfl⟩ := hh
            exact ⟨ho, by simpa using heoe, hty, hproc, fun h => absurd h hr⟩

/-- shape of every successful NewConn -/
theorem newConn_ok (H : Hpke) (keys : List Key) (t : Tr) (r : NewResult)
    (hr : newConn H keys t = r) (hok : r.err = none) :
    ∃ record t1 outer inner st1 buf, readRecord t = (record, none, t1) ∧ record.head? = some 22 ∧
      handle H { keys := keys } record false = .ok (outer, inner, st1) ∧
      firstMarshal outer inner = .ok buf ∧
      r = ⟨none, { afterHello st1 outer inner with readBuf := buf }, t1⟩ := by
  unfold newConn at hr
  split at hr
  · subst hr; simp [failNew] at hok
  · rename_i record t1 hrr
    split at hr
    · subst hr; simp [failNew] at hok
    · rename_i hne
      split at hr
      · subst hr; simp [failNew] at hok
      · rename_i outer inner st1 hh
        split at hr
        · subst hr; simp [failNew] at hok
        · rename_i buf hm
          exact ⟨record, t1, outer, inner, st1, buf, hrr, by simpa using hne, hh, hm, hr.symm⟩

end ECH
