import EchVerif.ECH.Multi
open Wire TLS
namespace ECH

@[simp] theorem Multi.set_same (m : Multi) (i : Nat) (s : Sys) : (m.set i s) i = s := by
  simp [Multi.set]

theorem Multi.set_other (m : Multi) (i j : Nat) (s : Sys) (h : j ≠ i) : (m.set i s) j = m j := by
  simp [Multi.set, h]

/-- an interleaved run, seen from connection `i`, is the single-connection run of `i`'s own operations:
    same final state, same observations in the same order -/
theorem mrun_proj (H : Hpke) (xs : List (Nat × Op)) (m : Multi) (i : Nat) :
    (mrun H m xs).1 i = (runOps H (m i) (opsOf i xs)).1 ∧
    obsOf i (mrun H m xs).2 = (runOps H (m i) (opsOf i xs)).2 := by
  induction xs generalizing m with
  | nil => simp [mrun, opsOf, obsOf, runOps]
  | cons x xs ih =>
    obtain ⟨j, op⟩ := x
    have ih' := ih (mstep H m (j, op)).1
    by_cases hj : j = i
    · subst hj
      have hs : (mstep H m (j, op)).1 j = (stepOp H (m j) op).1 := by simp [mstep]
      rw [hs] at ih'
      have ho : opsOf j ((j, op) :: xs) = op :: opsOf j xs := by simp [opsOf]
      have hb : obsOf j ((mstep H m (j, op)).2 :: (mrun H (mstep H m (j, op)).1 xs).2)
          = (stepOp H (m j) op).2 :: obsOf j (mrun H (mstep H m (j, op)).1 xs).2 := by
        simp [obsOf, mstep]
      simp only [mrun, ho, runOps, hb]
      exact ⟨ih'.1, by rw [ih'.2]⟩
    · have hs : (mstep H m (j, op)).1 i = m i := by
        simp only [mstep]; exact Multi.set_other _ _ _ _ (Ne.symm hj)
      rw [hs] at ih'
      have ho : opsOf i ((j, op) :: xs) = opsOf i xs := by simp [opsOf, hj]
      have hb : obsOf i ((mstep H m (j, op)).2 :: (mrun H (mstep H m (j, op)).1 xs).2)
          = obsOf i (mrun H (mstep H m (j, op)).1 xs).2 := by
        simp [obsOf, mstep, hj]
      simp only [mrun, ho, hb]
      exact ih'

end ECH
