import EchVerif.Resolve.Targets
/-
  Model of the decision part of `Transport.RoundTrip` (/repo/transport.go): scheme upgrade, the
  connection-pool key, Host header, TLS host, HTTP/3 choice and the filtering of HTTPS records.
  net/http (pooling, HTTP/2, the plaintext dialer) is not modelled.
-/
namespace Transport
open Resolve

def bHttp : Bytes := [104, 116, 116, 112]             -- "http"
def bHttps : Bytes := [104, 116, 116, 112, 115]       -- "https"
def bH3 : Bytes := [104, 51]                           -- "h3"
def bH2 : Bytes := [104, 50]                           -- "h2"
def bHttp11 : Bytes := [104, 116, 116, 112, 47, 49, 46, 49]   -- "http/1.1"
def b80 : Bytes := [56, 48]
def b443 : Bytes := [52, 52, 51]

structure In where
  scheme : Bytes                       -- req.URL.Scheme
  urlHost : Bytes                      -- req.URL.Host
  split : Option (Bytes × Bytes)       -- net.SplitHostPort(req.URL.Host) when it succeeds
  hostHdr : Bytes                      -- req.Host ("" when unset)
  hasH3 : Bool                         -- HTTP3Transport != nil
  https : List HttpsRec                -- res.HTTPS
deriving Repr

def scheme' (i : In) : Bytes := if i.https ≠ [] ∧ i.scheme = bHttp then bHttps else i.scheme

/-- (host, port) used for the key and the TLS server name -/
def hostPort (i : In) : Bytes × Bytes :=
  match i.split with
  | some hp => hp
  | none => (i.urlHost, if scheme' i = bHttp then b80 else b443)

/-- `fmt.Sprintf("_%s._%s.%s._", p, scheme, h)` -/
def poolKey (p s h : Bytes) : Bytes := [95] ++ p ++ [46, 95] ++ s ++ [46] ++ h ++ [46, 95]

def hostHeader (i : In) : Bytes := if i.hostHdr = [] then i.urlHost else i.hostHdr

/-- the loop deciding HTTP/3 -/
def h3Loop : List HttpsRec → Bool
  | [] => false
  | h :: hs =>
    if h.priority = 0 then h3Loop hs
    else if h.alpn.contains bH3 then true
    else if ¬ h.noDefaultALPN ∨ h.alpn.contains bH2 ∨ h.alpn.contains bHttp11 then false
    else h3Loop hs

def useH3 (i : In) : Bool := i.hasH3 && h3Loop i.https

/-- `filterResult(alpn, mustHave)`: which records are kept -/
def keep (set : List Bytes) (mustHave : Bool) (h : HttpsRec) : Bool :=
  if h.priority = 0 then false
  else if ¬ mustHave ∧ h.alpn = [] then true
  else if ¬ h.noDefaultALPN ∧ set.contains bHttp11 then true
  else h.alpn.any (fun p => set.contains p)

def filtered (i : In) : List HttpsRec :=
  if useH3 i then i.https.filter (keep [bH3] true) else i.https.filter (keep [bH2, bHttp11] false)

end Transport
