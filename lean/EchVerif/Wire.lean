/-
  Wire: model of golang.org/x/crypto/cryptobyte `String` readers and `Builder` writers
  as used by c2FmZQ/ech, over `List UInt8`.  Core Lean only (no Mathlib) so that the
  driver executable links.
-/
abbrev Bytes := List UInt8

namespace Wire

/-! ## big-endian writers (cryptobyte.Builder.AddUintN: never fail, truncate like Go's conversions) -/
def u8 (n : Nat) : Bytes := [UInt8.ofNat n]
def u16 (n : Nat) : Bytes := [UInt8.ofNat (n / 256), UInt8.ofNat n]
def u24 (n : Nat) : Bytes := [UInt8.ofNat (n / 65536), UInt8.ofNat (n / 256), UInt8.ofNat n]
def u32 (n : Nat) : Bytes :=
  [UInt8.ofNat (n / 16777216), UInt8.ofNat (n / 65536), UInt8.ofNat (n / 256), UInt8.ofNat n]

/-- `AddUint8LengthPrefixed`: the builder records an error when the child is too long. -/
def lp8 (b : Bytes) : Option Bytes := if b.length < 256 then some (u8 b.length ++ b) else none
def lp16 (b : Bytes) : Option Bytes := if b.length < 65536 then some (u16 b.length ++ b) else none
def lp24 (b : Bytes) : Option Bytes := if b.length < 16777216 then some (u24 b.length ++ b) else none

/-! ## readers (cryptobyte.String.ReadUintN / ReadBytes / ReadUintNLengthPrefixed) -/
def readU8 : Bytes → Option (Nat × Bytes)
  | a :: rest => some (a.toNat, rest)
  | _ => none

def readU16 : Bytes → Option (Nat × Bytes)
  | a :: b :: rest => some (a.toNat * 256 + b.toNat, rest)
  | _ => none

def readU24 : Bytes → Option (Nat × Bytes)
  | a :: b :: c :: rest => some (a.toNat * 65536 + b.toNat * 256 + c.toNat, rest)
  | _ => none

def readU32 : Bytes → Option (Nat × Bytes)
  | a :: b :: c :: d :: rest =>
    some (a.toNat * 16777216 + b.toNat * 65536 + c.toNat * 256 + d.toNat, rest)
  | _ => none

def readN (n : Nat) (b : Bytes) : Option (Bytes × Bytes) :=
  if n ≤ b.length then some (b.take n, b.drop n) else none

def readLP8 (b : Bytes) : Option (Bytes × Bytes) :=
  match readU8 b with
  | none => none
  | some (n, rest) => readN n rest

def readLP16 (b : Bytes) : Option (Bytes × Bytes) :=
  match readU16 b with
  | none => none
  | some (n, rest) => readN n rest

def readLP24 (b : Bytes) : Option (Bytes × Bytes) :=
  match readU24 b with
  | none => none
  | some (n, rest) => readN n rest

/-! ## forward lemmas: reading what was written -/

private theorem ofNat_toNat_lt {n : Nat} (h : n < 256) : (UInt8.ofNat n).toNat = n := by
  simp [UInt8.toNat_ofNat']; omega

@[simp] theorem readU8_u8 {n : Nat} (h : n < 256) (r : Bytes) :
    readU8 (u8 n ++ r) = some (n, r) := by
  simp [u8, readU8, UInt8.toNat_ofNat']; omega

@[simp] theorem readU16_u16 {n : Nat} (h : n < 65536) (r : Bytes) :
    readU16 (u16 n ++ r) = some (n, r) := by
  simp [u16, readU16, UInt8.toNat_ofNat']; omega

@[simp] theorem readU24_u24 {n : Nat} (h : n < 16777216) (r : Bytes) :
    readU24 (u24 n ++ r) = some (n, r) := by
  simp [u24, readU24, UInt8.toNat_ofNat']; omega

@[simp] theorem readU32_u32 {n : Nat} (h : n < 4294967296) (r : Bytes) :
    readU32 (u32 n ++ r) = some (n, r) := by
  simp [u32, readU32, UInt8.toNat_ofNat']; omega

@[simp] theorem readN_append (x r : Bytes) : readN x.length (x ++ r) = some (x, r) := by
  simp [readN]

theorem readN_append' {n : Nat} (x r : Bytes) (h : x.length = n) : readN n (x ++ r) = some (x, r) := by
  subst h; simp

theorem readLP8_lp8 {x e : Bytes} (h : lp8 x = some e) (r : Bytes) :
    readLP8 (e ++ r) = some (x, r) := by
  unfold lp8 at h
  split at h
  · rename_i hl
    simp at h; subst h
    simp [readLP8, List.append_assoc, readU8_u8 hl]
  · simp at h

theorem readLP16_lp16 {x e : Bytes} (h : lp16 x = some e) (r : Bytes) :
    readLP16 (e ++ r) = some (x, r) := by
  unfold lp16 at h
  split at h
  · rename_i hl
    simp at h; subst h
    simp [readLP16, List.append_assoc, readU16_u16 hl]
  · simp at h

theorem readLP24_lp24 {x e : Bytes} (h : lp24 x = some e) (r : Bytes) :
    readLP24 (e ++ r) = some (x, r) := by
  unfold lp24 at h
  split at h
  · rename_i hl
    simp at h; subst h
    simp [readLP24, List.append_assoc, readU24_u24 hl]
  · simp at h

/-! ## inversion lemmas: whatever a reader accepted re-encodes to the consumed prefix -/

theorem readU8_inv {b rest : Bytes} {n : Nat} (h : readU8 b = some (n, rest)) :
    b = u8 n ++ rest ∧ n < 256 := by
  match b, h with
  | a :: r, h =>
    simp [readU8] at h
    obtain ⟨h1, h2⟩ := h
    subst h2; subst h1
    have ha := a.toNat_lt
    exact ⟨by simp [u8], by omega⟩

theorem readU16_inv {b rest : Bytes} {n : Nat} (h : readU16 b = some (n, rest)) :
    b = u16 n ++ rest ∧ n < 65536 := by
  match b, h with
  | a :: c :: r, h =>
    simp [readU16] at h
    obtain ⟨h1, h2⟩ := h
    subst h2
    have ha := a.toNat_lt
    have hc := c.toNat_lt
    constructor
    · simp only [u16, ← h1, List.cons_append, List.nil_append, List.cons.injEq, and_true]
      constructor
      · apply UInt8.toNat_inj.mp; simp <;> omega
      · apply UInt8.toNat_inj.mp; simp <;> omega
    · omega

theorem readU24_inv {b rest : Bytes} {n : Nat} (h : readU24 b = some (n, rest)) :
    b = u24 n ++ rest ∧ n < 16777216 := by
  match b, h with
  | a :: c :: d :: r, h =>
    simp [readU24] at h
    obtain ⟨h1, h2⟩ := h
    subst h2
    have ha := a.toNat_lt
    have hc := c.toNat_lt
    have hd := d.toNat_lt
    constructor
    · simp only [u24, ← h1, List.cons_append, List.nil_append, List.cons.injEq, and_true]
      refine ⟨?_, ?_, ?_⟩
      · apply UInt8.toNat_inj.mp; simp <;> omega
      · apply UInt8.toNat_inj.mp; simp <;> omega
      · apply UInt8.toNat_inj.mp; simp <;> omega
    · omega

theorem readU32_inv {b rest : Bytes} {n : Nat} (h : readU32 b = some (n, rest)) :
    b = u32 n ++ rest ∧ n < 4294967296 := by
  match b, h with
  | a :: c :: d :: e :: r, h =>
    simp [readU32] at h
    obtain ⟨h1, h2⟩ := h
    subst h2
    have ha := a.toNat_lt
    have hc := c.toNat_lt
    have hd := d.toNat_lt
    have he := e.toNat_lt
    constructor
    · simp only [u32, ← h1, List.cons_append, List.nil_append, List.cons.injEq, and_true]
      refine ⟨?_, ?_, ?_, ?_⟩
      · apply UInt8.toNat_inj.mp; simp <;> omega
      · apply UInt8.toNat_inj.mp; simp <;> omega
      · apply UInt8.toNat_inj.mp; simp <;> omega
      · apply UInt8.toNat_inj.mp; simp <;> omega
    · omega

theorem readN_inv {n : Nat} {b x rest : Bytes} (h : readN n b = some (x, rest)) :
    b = x ++ rest ∧ x.length = n := by
  unfold readN at h
  split at h
  · simp at h
    obtain ⟨h1, h2⟩ := h
    subst h1; subst h2
    simp [List.take_append_drop]; omega
  · simp at h

theorem readLP8_inv {b x rest : Bytes} (h : readLP8 b = some (x, rest)) :
    b = u8 x.length ++ x ++ rest ∧ x.length < 256 := by
  unfold readLP8 at h
  split at h
  · simp at h
  · rename_i n r heq
    obtain ⟨h1, h2⟩ := readU8_inv heq
    obtain ⟨h3, h4⟩ := readN_inv h
    subst h4
    simp [h1, h3, h2]

theorem readLP16_inv {b x rest : Bytes} (h : readLP16 b = some (x, rest)) :
    b = u16 x.length ++ x ++ rest ∧ x.length < 65536 := by
  unfold readLP16 at h
  split at h
  · simp at h
  · rename_i n r heq
    obtain ⟨h1, h2⟩ := readU16_inv heq
    obtain ⟨h3, h4⟩ := readN_inv h
    subst h4
    simp [h1, h3, h2]

theorem readLP24_inv {b x rest : Bytes} (h : readLP24 b = some (x, rest)) :
    b = u24 x.length ++ x ++ rest ∧ x.length < 16777216 := by
  unfold readLP24 at h
  split at h
  · simp at h
  · rename_i n r heq
    obtain ⟨h1, h2⟩ := readU24_inv heq
    obtain ⟨h3, h4⟩ := readN_inv h
    subst h4
    simp [h1, h3, h2]

theorem u16_inj {a b : Nat} (ha : a < 65536) (hb : b < 65536) (h : u16 a = u16 b) : a = b := by
  have h1 := readU16_u16 ha []
  have h2 := readU16_u16 hb []
  rw [h] at h1
  rw [h1] at h2
  simpa using h2

theorem u24_inj {a b : Nat} (ha : a < 16777216) (hb : b < 16777216) (h : u24 a = u24 b) : a = b := by
  have h1 := readU24_u24 ha []
  have h2 := readU24_u24 hb []
  rw [h] at h1
  rw [h1] at h2
  simpa using h2

/-! ## length facts (used for fuel / termination / no over-read arguments) -/
theorem readU8_len {b r : Bytes} {n : Nat} (h : readU8 b = some (n, r)) : b.length = r.length + 1 := by
  have := (readU8_inv h).1; subst this; simp [u8]
theorem readU16_len {b r : Bytes} {n : Nat} (h : readU16 b = some (n, r)) : b.length = r.length + 2 := by
  have := (readU16_inv h).1; subst this; simp [u16]
theorem readU24_len {b r : Bytes} {n : Nat} (h : readU24 b = some (n, r)) : b.length = r.length + 3 := by
  have := (readU24_inv h).1; subst this; simp [u24]
theorem readU32_len {b r : Bytes} {n : Nat} (h : readU32 b = some (n, r)) : b.length = r.length + 4 := by
  have := (readU32_inv h).1; subst this; simp [u32]
theorem readN_len {n : Nat} {b x r : Bytes} (h : readN n b = some (x, r)) : b.length = n + r.length := by
  obtain ⟨h1, h2⟩ := readN_inv h; subst h1; simp [h2]
theorem readLP8_len {b x r : Bytes} (h : readLP8 b = some (x, r)) : b.length = 1 + x.length + r.length := by
  have := (readLP8_inv h).1; subst this; simp [u8]; omega
theorem readLP16_len {b x r : Bytes} (h : readLP16 b = some (x, r)) : b.length = 2 + x.length + r.length := by
  have := (readLP16_inv h).1; subst this; simp [u16]; omega

end Wire
