import EchVerif.DNS.Message
import EchVerif.Hex
/- canonical text form of DNS messages for the line protocol (driver only) -/
open Hex
namespace DNS.Text

def plusList (l : List String) : String := if l.isEmpty then "_" else "+".intercalate l
def hexL (l : List Bytes) : String := plusList (l.map hex)
def nm (n : Name) : String := hex (joinName n)

def showData : RData → String
  | .ip b => s!"ip:{hex b}"
  | .name n => s!"name:{nm n}"
  | .soa m r a b c d e => s!"soa:{nm m}:{nm r}:{a}:{b}:{c}:{d}:{e}"
  | .mx p n => s!"mx:{p}:{nm n}"
  | .txt l => s!"txt:{hexL l}"
  | .loc => "loc"
  | .srv p w port t => s!"srv:{p}:{w}:{port}:{nm t}"
  | .cert t k a c => s!"cert:{t}:{k}:{a}:{hex c}"
  | .opt l => "opt:" ++ plusList (l.map fun o => s!"{o.code}={hex o.data}")
  | .ds k a dt d => s!"ds:{k}:{a}:{dt}:{hex d}"
  | .rrsig tc alg lab ottl exp inc tag n sig => s!"rrsig:{tc}:{alg}:{lab}:{ottl}:{exp}:{inc}:{tag}:{nm n}:{hex sig}"
  | .nsec n bm => s!"nsec:{nm n}:{hex bm}"
  | .dnskey f p a k => s!"dnskey:{f}:{p}:{a}:{hex k}"
  | .svcb p t ps => s!"svcb:{p}:{nm t}:" ++ plusList (ps.map fun x => s!"{x.key}={hex x.value}")
  | .https h => s!"https:{h.priority}:{nm h.target}:{hexL h.alpn}:{if h.noDefaultALPN then 1 else 0}:{h.port}:{hexL h.v4}:{hexL h.v6}:{hex h.ech}"
  | .uri p w t => s!"uri:{p}:{w}:{hex t}"
  | .caa f tag v => s!"caa:{f}:{hex tag}:{hex v}"
  | .raw b => s!"raw:{hex b}"

def showRR (r : RR) : String := s!"{nm r.name},{r.typ},{r.cls},{r.ttl},{showData r.data}"
def semi (l : List String) : String := if l.isEmpty then "_" else ";".intercalate l
def showMsg (m : Message) : String :=
  s!"{m.id},{m.qr},{m.opcode},{m.aa},{m.tc},{m.rd},{m.ra},{m.rcode} " ++
  semi (m.question.map fun q => s!"{nm q.name},{q.typ},{q.cls}") ++ " " ++
  semi (m.answer.map showRR) ++ " " ++ semi (m.authority.map showRR) ++ " " ++ semi (m.additional.map showRR)

/-! parsing of encoder inputs -/
def unPlus (s : String) : Option (List Bytes) :=
  if s = "_" then some [] else (s.splitOn "+").mapM unhex

def readOpts (s : String) : Option (List Opt) :=
  if s = "_" then some [] else
  (s.splitOn "+").mapM fun x => match x.splitOn "=" with
    | [c, d] => do some ⟨← c.toNat?, ← unhex d⟩
    | _ => none

def readEData (s : String) : Option EData :=
  match s.splitOn ":" with
  | ["ip", b] => (unhex b).map .ip
  | ["str", b] => (unhex b).map .str
  | ["opt", l] => (readOpts l).map .opts
  | ["https", p, t, alpn, nd, port, v4, v6, ech] => do
    some (.https (← p.toNat?) (← unhex t) (← unPlus alpn) (nd = "1") (← port.toNat?) (← unPlus v4) (← unPlus v6) (← unhex ech))
  | ["other"] => some .other
  | _ => none

def readERR (s : String) : Option ERR :=
  match s.splitOn "," with
  | [n, t, c, ttl, d] => do some ⟨← unhex n, ← t.toNat?, ← c.toNat?, ← ttl.toNat?, ← readEData d⟩
  | _ => none

def readSection (s : String) : Option (List ERR) :=
  if s = "_" then some [] else (s.splitOn ";").mapM readERR

def readQuestions (s : String) : Option (List EQuestion) :=
  if s = "_" then some [] else
  (s.splitOn ";").mapM fun x => match x.splitOn "," with
    | [n, t, c] => do some ⟨← unhex n, ← t.toNat?, ← c.toNat?⟩
    | _ => none

def readEMsg (hdr q a b c : String) : Option EMessage :=
  match (hdr.splitOn ",").mapM String.toNat? with
  | some [id, qr, op, aa, tc, rd, ra, rc] => do
    some { id := id, qr := qr, opcode := op, aa := aa, tc := tc, rd := rd, ra := ra, rcode := rc,
           question := ← readQuestions q, answer := ← readSection a, authority := ← readSection b, additional := ← readSection c }
  | _ => none

def showEData : EData → String
  | .ip b => s!"ip:{hex b}"
  | .str s => s!"str:{hex s}"
  | .opts l => "opt:" ++ plusList (l.map fun o => s!"{o.code}={hex o.data}")
  | .https p t alpn nd port v4 v6 ech => s!"https:{p}:{hex t}:{hexL alpn}:{if nd then 1 else 0}:{port}:{hexL v4}:{hexL v6}:{hex ech}"
  | .other => "other"

def showEMsg (m : EMessage) : String :=
  s!"{m.id},{m.qr},{m.opcode},{m.aa},{m.tc},{m.rd},{m.ra},{m.rcode} " ++
  semi (m.question.map fun q => s!"{hex q.name},{q.typ},{q.cls}") ++ " " ++
  semi (m.answer.map fun r => s!"{hex r.name},{r.typ},{r.cls},{r.ttl},{showEData r.data}") ++ " " ++
  semi (m.authority.map fun r => s!"{hex r.name},{r.typ},{r.cls},{r.ttl},{showEData r.data}") ++ " " ++
  semi (m.additional.map fun r => s!"{hex r.name},{r.typ},{r.cls},{r.ttl},{showEData r.data}")

end DNS.Text
