import EchVerif.Wire
/-
  Model of /repo/dns/message.go: DecodeMessage (decoder), Message.Bytes / RR.Bytes (encoder),
  AddPadding, ResponseCode.
  * cryptobyte.String windows are sub-slices of the message: a window is modelled as (pos, bytes)
    with `pos` its offset in `raw` (the Go code compares addresses of such sub-slices).
  * Go type switches / assertions on RR.Data become constructor matches on `RData`.
  * LOC records (floating point) are kept opaque.
-/
open Wire
namespace DNS

/-- a sub-slice of the raw message: offset of its first byte and its contents -/
structure Win where
  pos : Nat
  b : Bytes
deriving Repr, DecidableEq

def Win.adv (w : Win) (rest : Bytes) : Win := ⟨w.pos + (w.b.length - rest.length), rest⟩

abbrev Name := List Bytes   -- labels

structure Opt where
  code : Nat
  data : Bytes
deriving Repr, DecidableEq

structure SvcParam where
  key : Nat
  value : Bytes
deriving Repr, DecidableEq

structure Https where
  priority : Nat := 0
  target : Name := []
  alpn : List Bytes := []
  noDefaultALPN : Bool := false
  port : Nat := 0
  v4 : List Bytes := []
  v6 : List Bytes := []
  ech : Bytes := []
deriving Repr, DecidableEq

inductive RData
  | ip (b : Bytes)                          -- net.IP        (A, AAAA)
  | name (n : Name)                         -- string        (NS, CNAME, PTR)
  | soa (m r : Name) (serial refresh retry expire minimum : Nat)
  | mx (pref : Nat) (exch : Name)
  | txt (l : List Bytes)
  | loc                                      -- opaque
  | srv (prio weight port : Nat) (target : Name)
  | cert (typ tag alg : Nat) (c : Bytes)
  | opt (l : List Opt)                      -- []Option
  | ds (tag alg dt : Nat) (d : Bytes)
  | rrsig (tc alg labels ottl exp inc tag : Nat) (signer : Name) (sig : Bytes)
  | nsec (next : Name) (bm : Bytes)
  | dnskey (flags proto alg : Nat) (k : Bytes)
  | svcb (prio : Nat) (target : Name) (ps : List SvcParam)
  | https (h : Https)
  | uri (prio weight : Nat) (target : Bytes)
  | caa (flags : Nat) (tag value : Bytes)
  | raw (b : Bytes)                         -- []byte        (every other type)
deriving Repr, DecidableEq

structure RR where
  name : Name
  typ : Nat
  cls : Nat
  ttl : Nat
  data : RData
deriving Repr, DecidableEq

structure Question where
  name : Name
  typ : Nat
  cls : Nat
deriving Repr, DecidableEq

structure Message where
  id : Nat := 0
  qr : Nat := 0
  opcode : Nat := 0
  aa : Nat := 0
  tc : Nat := 0
  rd : Nat := 0
  ra : Nat := 0
  rcode : Nat := 0
  question : List Question := []
  answer : List RR := []
  authority : List RR := []
  additional : List RR := []
deriving Repr, DecidableEq

/-! ### names -/

/-- RFC 1035 2.3.4 budget enforced by the decoder: at most 255 octets of labels and at most 255
    compression pointers per name -/
def maxNameOctets : Nat := 255
def maxPointers : Nat := 255

/-- `nameLabels`: `cur` is the caller's cursor (advanced until the first pointer), `w` the window
    labels are currently read from. Returns labels and the caller's cursor. `none` = ErrDecodeError.
    The recursion is on `fuel`; C12 shows 520 always suffices. -/
def nameLabelsF (raw : Bytes) : Nat → (jumped : Bool) → (cur w : Win) → (ptrs size : Nat) → Option (Name × Win)
  | 0, _, _, _, _, _ => none
  | fuel+1, jumped, cur, w, ptrs, size =>
    match w.b with
    | b0 :: _ =>
      if b0.toNat / 64 = 3 then
        -- compression pointer
        if ptrs + 1 > maxPointers then none else
        match readU16 w.b with
        | none => none
        | some (v, rest) =>
          if v % 16384 ≥ raw.length ∨ v % 16384 ≥ w.pos then none else
          nameLabelsF raw fuel true (if jumped then cur else w.adv rest) ⟨v % 16384, raw.drop (v % 16384)⟩ (ptrs + 1) size
      else
        match readLP8 w.b with
        | none => none
        | some (lab, rest) =>
          if lab = [] then some ([], if jumped then cur else w.adv rest)
          else if size + lab.length + 1 > maxNameOctets then none
          else
            match nameLabelsF raw fuel jumped (if jumped then cur else w.adv rest) (w.adv rest) ptrs (size + lab.length + 1) with
            | none => none
            | some (ls, c) => some (lab :: ls, c)
    | [] => none

def nameFuel : Nat := 520

/-- `d.name(s)`: labels and the advanced cursor -/
def readName (raw : Bytes) (w : Win) : Option (Name × Win) := nameLabelsF raw nameFuel false w w 0 0

/-- `strings.Join(labels, ".")` -/
def joinName : Name → Bytes
  | [] => []
  | [l] => l
  | l :: ls => l ++ [46] ++ joinName ls

/-! ### readers on windows -/
def wU8 (w : Win) : Option (Nat × Win) := (readU8 w.b).map fun (v, r) => (v, w.adv r)
def wU16 (w : Win) : Option (Nat × Win) := (readU16 w.b).map fun (v, r) => (v, w.adv r)
def wU32 (w : Win) : Option (Nat × Win) := (readU32 w.b).map fun (v, r) => (v, w.adv r)
def wLP16 (w : Win) : Option (Win × Win) :=
  (readLP16 w.b).map fun (x, r) => (⟨w.pos + 2, x⟩, w.adv r)

/-! ### RDATA -/

def lp8ListF : Nat → Bytes → Option (List Bytes)
  | 0, b => if b = [] then some [] else none
  | fuel+1, b =>
    if b = [] then some [] else
    match readLP8 b with
    | none => none
    | some (x, r) => (lp8ListF fuel r).map (x :: ·)

def chunksOfF : Nat → Nat → Bytes → Option (List Bytes)
  | 0, _, b => if b = [] then some [] else none
  | fuel+1, k, b =>
    if b = [] then some [] else
    match readN k b with
    | none => none
    | some (x, r) => (chunksOfF fuel k r).map (x :: ·)

def optsF : Nat → Bytes → Option (List Opt)
  | 0, b => if b = [] then some [] else none
  | fuel+1, b =>
    if b = [] then some [] else
    match readU16 b with
    | none => none
    | some (c, r) =>
      match readLP16 r with
      | none => none
      | some (d, r2) => (optsF fuel r2).map (⟨c, d⟩ :: ·)

def svcParamsF : Nat → Bytes → Option (List SvcParam)
  | 0, b => if b = [] then some [] else none
  | fuel+1, b =>
    if b = [] then some [] else
    match readU16 b with
    | none => none
    | some (k, r) =>
      match readLP16 r with
      | none => none
      | some (v, r2) => (svcParamsF fuel r2).map (⟨k, v⟩ :: ·)

/-- the parameter loop of `d.https` -/
def httpsParamsF : Nat → Bytes → Https → Option Https
  | 0, b, h => if b = [] then some h else none
  | fuel+1, b, h =>
    if b = [] then some h else
    match readU16 b with
    | none => none
    | some (k, r) =>
      match readLP16 r with
      | none => none
      | some (v, r2) =>
        let h' : Option Https :=
          if k = 1 then (lp8ListF v.length v).map fun l => { h with alpn := h.alpn ++ l }
          else if k = 2 then some { h with noDefaultALPN := true }
          else if k = 3 then (readU16 v).map fun (p, _) => { h with port := p }
          else if k = 4 then (chunksOfF v.length 4 v).map fun l => { h with v4 := h.v4 ++ l }
          else if k = 5 then some { h with ech := v }
          else if k = 6 then (chunksOfF v.length 16 v).map fun l => { h with v6 := h.v6 ++ l }
          else some h
        match h' with
        | none => none
        | some h'' => httpsParamsF fuel r2 h''

def decSOA (raw : Bytes) (data : Win) : Option RData :=
  match readName raw data with
  | none => none
  | some (m, w1) =>
    match readName raw w1 with
    | none => none
    | some (r, w2) =>
      match readU32 w2.b with
      | none => none
      | some (a, b1) => match readU32 b1 with
        | none => none
        | some (b, b2) => match readU32 b2 with
          | none => none
          | some (c, b3) => match readU32 b3 with
            | none => none
            | some (d, b4) => match readU32 b4 with
              | none => none
              | some (e, _) => some (.soa m r a b c d e)

def decMX (raw : Bytes) (data : Win) : Option RData :=
  match wU16 data with
  | none => none
  | some (p, w1) => (readName raw w1).map fun (n, _) => .mx p n

def decSRV (raw : Bytes) (data : Win) : Option RData :=
  match wU16 data with
  | none => none
  | some (p, w1) => match wU16 w1 with
    | none => none
    | some (w, w2) => match wU16 w2 with
      | none => none
      | some (port, w3) => (readName raw w3).map fun (n, _) => .srv p w port n

def decCERT (data : Win) : Option RData :=
  match readU16 data.b with
  | none => none
  | some (t, r1) => match readU16 r1 with
    | none => none
    | some (k, r2) => match readU8 r2 with
      | none => none
      | some (a, r3) => some (.cert t k a r3)

def decDS (data : Win) : Option RData :=
  match readU16 data.b with
  | none => none
  | some (k, r1) => match readU8 r1 with
    | none => none
    | some (a, r2) => match readU8 r2 with
      | none => none
      | some (dt, r3) => some (.ds k a dt r3)

def decRRSIG (raw : Bytes) (data : Win) : Option RData :=
  match wU16 data with
  | none => none
  | some (tc, w1) => match wU8 w1 with
    | none => none
    | some (alg, w2) => match wU8 w2 with
      | none => none
      | some (lab, w3) => match wU32 w3 with
        | none => none
        | some (ottl, w4) => match wU32 w4 with
          | none => none
          | some (exp, w5) => match wU32 w5 with
            | none => none
            | some (inc, w6) => match wU16 w6 with
              | none => none
              | some (tag, w7) => (readName raw w7).map fun (n, w8) => .rrsig tc alg lab ottl exp inc tag n w8.b

def decDNSKEY (data : Win) : Option RData :=
  match readU16 data.b with
  | none => none
  | some (f, r1) => match readU8 r1 with
    | none => none
    | some (p, r2) => match readU8 r2 with
      | none => none
      | some (a, r3) => some (.dnskey f p a r3)

def decSVCB (raw : Bytes) (data : Win) : Option RData :=
  match wU16 data with
  | none => none
  | some (p, w1) => match readName raw w1 with
    | none => none
    | some (n, w2) => (svcParamsF w2.b.length w2.b).map fun ps => .svcb p n ps

def decHTTPS (raw : Bytes) (data : Win) : Option RData :=
  match wU16 data with
  | none => none
  | some (p, w1) => match readName raw w1 with
    | none => none
    | some (n, w2) => (httpsParamsF w2.b.length w2.b { priority := p, target := n }).map .https

def decURI (data : Win) : Option RData :=
  match readU16 data.b with
  | none => none
  | some (p, r1) => match readU16 r1 with
    | none => none
    | some (w, r2) => some (.uri p w r2)

def decCAA (data : Win) : Option RData :=
  match readU8 data.b with
  | none => none
  | some (f, r1) => match readLP8 r1 with
    | none => none
    | some (tag, r2) => some (.caa f tag r2)

/-- the `switch rr.Type` of `d.rr`; `data` is the RDATA window -/
def decodeRData (raw : Bytes) (typ : Nat) (data : Win) : Option RData :=
  if typ = 1 then (if data.b.length = 4 then some (.ip data.b) else none)
  else if typ = 2 ∨ typ = 5 ∨ typ = 12 then (readName raw data).map fun (n, _) => .name n
  else if typ = 6 then decSOA raw data
  else if typ = 15 then decMX raw data
  else if typ = 16 then (lp8ListF data.b.length data.b).map .txt
  else if typ = 28 then (if data.b.length = 16 then some (.ip data.b) else none)
  else if typ = 29 then (if data.b.length ≥ 16 then some .loc else none)
  else if typ = 33 then decSRV raw data
  else if typ = 37 then decCERT data
  else if typ = 41 then (optsF data.b.length data.b).map .opt
  else if typ = 43 then decDS data
  else if typ = 46 then decRRSIG raw data
  else if typ = 47 then (readName raw data).map fun (n, w) => .nsec n w.b
  else if typ = 48 then decDNSKEY data
  else if typ = 64 then decSVCB raw data
  else if typ = 65 then decHTTPS raw data
  else if typ = 256 then decURI data
  else if typ = 257 then decCAA data
  else some (.raw data.b)

/-- `d.rr(s)` -/
def decodeRR (raw : Bytes) (w : Win) : Option (RR × Win) :=
  match readName raw w with
  | none => none
  | some (n, w1) => match wU16 w1 with
    | none => none
    | some (typ, w2) => match wU16 w2 with
      | none => none
      | some (cls, w3) => match wU32 w3 with
        | none => none
        | some (ttl, w4) => match wLP16 w4 with
          | none => none
          | some (data, w5) => (decodeRData raw typ data).map fun d => (⟨n, typ, cls, ttl, d⟩, w5)

def decodeRRs (raw : Bytes) : Nat → Win → Option (List RR × Win)
  | 0, w => some ([], w)
  | n+1, w =>
    match decodeRR raw w with
    | none => none
    | some (rr, w1) => (decodeRRs raw n w1).map fun (l, w2) => (rr :: l, w2)

def decodeQuestions (raw : Bytes) : Nat → Win → Option (List Question × Win)
  | 0, w => some ([], w)
  | n+1, w =>
    match readName raw w with
    | none => none
    | some (nm, w1) => match wU16 w1 with
      | none => none
      | some (t, w2) => match wU16 w2 with
        | none => none
        | some (c, w3) => (decodeQuestions raw n w3).map fun (l, w4) => (⟨nm, t, c⟩ :: l, w4)

/-- `DecodeMessage` -/
def decode (raw : Bytes) : Option Message :=
  match readU16 raw with
  | none => none
  | some (id, r1) => match readU16 r1 with
    | none => none
    | some (fl, r2) => match readU16 r2 with
      | none => none
      | some (qd, r3) => match readU16 r3 with
        | none => none
        | some (an, r4) => match readU16 r4 with
          | none => none
          | some (ns, r5) => match readU16 r5 with
            | none => none
            | some (ar, r6) =>
              match decodeQuestions raw qd ⟨12, r6⟩ with
              | none => none
              | some (qs, w1) => match decodeRRs raw an w1 with
                | none => none
                | some (a, w2) => match decodeRRs raw ns w2 with
                  | none => none
                  | some (b, w3) => match decodeRRs raw ar w3 with
                    | none => none
                    | some (c, _) =>
                      some { id := id, qr := fl / 32768, opcode := fl / 2048 % 16, aa := fl / 1024 % 2, tc := fl / 512 % 2,
                             rd := fl / 256 % 2, ra := fl / 128 % 2, rcode := fl % 16,
                             question := qs, answer := a, authority := b, additional := c }

/-! ### encoder -/

/-- outcome of the encoder: `none` = BytesOrPanic / default-case panic -/
def encLabels : Name → Option Bytes
  | [] => some []
  | l :: ls => match lp8 l, encLabels ls with
    | some a, some b => some (a ++ b)
    | _, _ => none

/-- names as the encoder sees them: a Go string split on "." -/
def splitDots (s : Bytes) : Name :=
  s.foldr (fun c acc => if c = 46 then [] :: acc else match acc with
    | [] => [[c]]
    | l :: ls => (c :: l) :: ls) [[]]

/-- RR / target / rdata names: `if len(name) > 0 { split … }` then a zero byte -/
def encNameStr (s : Bytes) : Option Bytes :=
  if s = [] then some [0] else (encLabels (splitDots s)).map (· ++ [0])

def encOpts : List Opt → Option Bytes
  | [] => some []
  | o :: os => match lp16 o.data, encOpts os with
    | some a, some b => some (u16 o.code ++ a ++ b)
    | _, _ => none

/-- encoder-side RDATA: Go values the encoder accepts -/
inductive EData
  | ip (b : Bytes)
  | str (s : Bytes)          -- a Go string (name for NS/CNAME/PTR, ignored for other types)
  | opts (l : List Opt)
  | https (prio : Nat) (target : Bytes) (alpn : List Bytes) (ndalpn : Bool) (port : Nat) (v4 v6 : List Bytes) (ech : Bytes)
  | other                    -- any other dynamic type: `panic("cannot serialize")`
deriving Repr

structure ERR where
  name : Bytes
  typ : Nat
  cls : Nat
  ttl : Nat
  data : EData
deriving Repr

def encAlpn : List Bytes → Option Bytes
  | [] => some []
  | p :: ps => match lp8 p, encAlpn ps with
    | some a, some b => some (a ++ b)
    | _, _ => none

def param (k : Nat) (v : Bytes) : Option Bytes := (lp16 v).map (u16 k ++ ·)

def encRData (typ : Nat) : EData → Option Bytes
  | .ip b => some b
  | .str s => if typ = 2 ∨ typ = 5 ∨ typ = 12 then (encLabels (splitDots s)).map (· ++ [0]) else some []
  | .opts l => encOpts l
  | .https prio target alpn nd port v4 v6 ech =>
    match encNameStr target, (if alpn = [] then some [] else (encAlpn alpn).bind (param 1)),
          (if v4 = [] then some [] else param 4 v4.flatten), (if ech = [] then some [] else param 5 ech),
          (if v6 = [] then some [] else param 6 v6.flatten) with
    | some t, some a, some h4, some e, some h6 =>
      some (u16 prio ++ t ++ a ++ (if nd then u16 2 ++ u16 0 else []) ++
            (if port > 0 then u16 3 ++ u16 2 ++ u16 port else []) ++ h4 ++ e ++ h6)
    | _, _, _, _, _ => none
  | .other => none

/-- `RR.Bytes()` -/
def encRR (rr : ERR) : Option Bytes :=
  match encNameStr rr.name, (encRData rr.typ rr.data).bind lp16 with
  | some n, some d => some (n ++ u16 rr.typ ++ u16 rr.cls ++ u32 rr.ttl ++ d)
  | _, _ => none

def encRRs : List ERR → Option Bytes
  | [] => some []
  | r :: rs => match encRR r, encRRs rs with
    | some a, some b => some (a ++ b)
    | _, _ => none

structure EQuestion where
  name : Bytes
  typ : Nat
  cls : Nat
deriving Repr

/-- `strings.TrimSuffix(name, ".")` -/
def trimDot (s : Bytes) : Bytes := if s.getLast? = some 46 then s.dropLast else s

def encQuestion (q : EQuestion) : Option Bytes :=
  (encNameStr (trimDot q.name)).map (· ++ u16 q.typ ++ u16 q.cls)

def encQuestions : List EQuestion → Option Bytes
  | [] => some []
  | q :: qs => match encQuestion q, encQuestions qs with
    | some a, some b => some (a ++ b)
    | _, _ => none

structure EMessage where
  id : Nat := 0
  qr : Nat := 0
  opcode : Nat := 0
  aa : Nat := 0
  tc : Nat := 0
  rd : Nat := 0
  ra : Nat := 0
  rcode : Nat := 0
  question : List EQuestion := []
  answer : List ERR := []
  authority : List ERR := []
  additional : List ERR := []
deriving Repr

def flagsWord (m : EMessage) : Nat :=
  (m.qr % 2) * 32768 + (m.opcode % 16) * 2048 + (m.aa % 2) * 1024 + (m.tc % 2) * 512 +
  (m.rd % 2) * 256 + (m.ra % 2) * 128 + m.rcode % 16

/-- `Message.Bytes()`; `none` = panic -/
def encode (m : EMessage) : Option Bytes :=
  match encQuestions m.question, encRRs m.answer, encRRs m.authority, encRRs m.additional with
  | some q, some a, some b, some c =>
    some (u16 m.id ++ u16 (flagsWord m) ++ u16 m.question.length ++ u16 m.answer.length ++
          u16 m.authority.length ++ u16 m.additional.length ++ q ++ a ++ b ++ c)
  | _, _, _, _ => none

/-- `ResponseCode()` given rcode and the TTL of the first OPT record, if any -/
def responseCode (rcode : Nat) (optTTL : Option Nat) : Nat :=
  match optTTL with
  | none => rcode % 16
  | some ttl => rcode % 16 + (ttl / 16777216 % 256) * 16

/-- the additional section AddPadding works on and the index of its OPT record (appended when absent) -/
def padTarget (m : EMessage) : List ERR × Nat :=
  match m.additional.findIdx? (fun r => r.typ = 41) with
  | some p => (m.additional, p)
  | none => (m.additional ++ [⟨[], 41, 4096, 0, .opts []⟩], m.additional.length)

def padLen (n : Nat) : Nat := (128 - (n + 4) % 128) % 128

def withOpts (r : ERR) (os : List Opt) : ERR := { r with data := .opts os }
def withAdditional (m : EMessage) (l : List ERR) : EMessage := { m with additional := l }
def keepNonPadding (os : List Opt) : List Opt := os.filter (fun o => o.code ≠ 12)

/-- `AddPadding()`: `none` = panic (first OPT record does not carry []Option, or encoding panics) -/
def addPadding (m : EMessage) : Option EMessage :=
  match (padTarget m).1[(padTarget m).2]? with
  | some r =>
    match r.data with
    | .opts os =>
      match encode (withAdditional m ((padTarget m).1.set (padTarget m).2 (withOpts r (keepNonPadding os)))) with
      | none => none
      | some b =>
        some (withAdditional m ((padTarget m).1.set (padTarget m).2
          (withOpts r (keepNonPadding os ++ [⟨12, List.replicate (padLen b.length) 0⟩]))))
    | _ => none
  | none => none

end DNS
