import EchVerif.Wire
/-
  Model of /repo/publish/cloudflare.go: the service-parameter rewrite and PublishECH over an
  abstract Cloudflare API (zones → HTTPS records, served in pages of 20) with failure injection.
  HTTP, JSON and retry glue are not modelled (exercised by the harness).
-/
namespace Publish

/-- `strings.Split(s, " ")` -/
def splitSp : Bytes → List Bytes
  | [] => [[]]
  | c :: cs =>
    if c = 32 then [] :: splitSp cs
    else match splitSp cs with
      | t :: ts => (c :: t) :: ts
      | [] => [[c]]

/-- `strings.Join(l, " ")` -/
def joinSp : List Bytes → Bytes
  | [] => []
  | [t] => t
  | t :: ts => t ++ [32] ++ joinSp ts

def echPrefix : Bytes := [101, 99, 104, 61]   -- "ech="

/-- `k, v, ok := strings.Cut(p, "="); ok && k == "ech"` -/
def isEch (tok : Bytes) : Bool := tok.take 4 == echPrefix

/-- `strings.Trim(v, "\"")` -/
def trimQuotes (v : Bytes) : Bytes := ((v.dropWhile (· == 34)).reverse.dropWhile (· == 34)).reverse

/-- the value of the last ech token, unquoted ("" when there is none) -/
def oldEch (toks : List Bytes) : Bytes :=
  match (toks.filter isEch).getLast? with
  | some t => trimQuotes (t.drop 4)
  | none => []

def echToken (new : Bytes) : Bytes := echPrefix ++ [34] ++ new ++ [34]

/-- the parameter rewrite of PublishECH: `none` = StatusNoChange -/
def rewrite (value new : Bytes) : Option Bytes :=
  if new = oldEch (splitSp value) then none
  else some (joinSp ((splitSp value).filter (fun t => ¬ isEch t) ++ [echToken new]))

/-- one publish of `new` on a stored value: the value afterwards (`StatusNoChange` keeps it) -/
def publishOne (value new : Bytes) : Bytes :=
  match rewrite value new with
  | some v => v
  | none => value

/-- a history of publishes with changing config lists, applied to one record's stored value -/
def publishSeq (value : Bytes) : List Bytes → Bytes
  | [] => value
  | n :: ns => publishSeq (publishOne value n) ns

/-! ### abstract API -/

structure Rec where
  id : Bytes
  name : Bytes
  value : Bytes
deriving Repr, DecidableEq

structure Zone where
  name : Bytes
  id : Bytes
  recs : List Rec
deriving Repr, DecidableEq

inductive Status | updated | notFound | noChange | error
deriving Repr, DecidableEq

structure Tgt where
  zone : Bytes
  name : Bytes
deriving Repr, DecidableEq

/-- publisher + API state threaded through one PublishECH call -/
structure PState where
  zones : List Zone                       -- the API's data
  zoneIDs : List (Bytes × Bytes) := []    -- publisher's zone-id cache (persists across calls)
  reqs : Nat := 0                         -- API requests issued so far (fault schedule index)
  patches : List (Bytes × Bytes) := []    -- (record id, new value) PATCHed, in order
deriving Repr

/-- does API request number n fail? -/
abbrev Faults := Nat → Bool

def perPage : Nat := 20

/-- fetch all pages of a zone's HTTPS records: (records received, all pages ok?, requests issued) -/
def fetchPages (f : Faults) (recs : List Rec) : Nat → Nat → Nat → List Rec × Bool × Nat
  | 0, _, reqs => ([], true, reqs)
  | fuel+1, page, reqs =>
    if f reqs then ([], false, reqs + 1) else
    if ((recs.drop ((page - 1) * perPage)).take perPage).length = 0 ∨ page ≥ (recs.length + perPage - 1) / perPage
        ∨ page * perPage ≥ recs.length then ((recs.drop ((page - 1) * perPage)).take perPage, true, reqs + 1)
    else
      ((recs.drop ((page - 1) * perPage)).take perPage ++ (fetchPages f recs fuel (page + 1) (reqs + 1)).1,
       (fetchPages f recs fuel (page + 1) (reqs + 1)).2.1, (fetchPages f recs fuel (page + 1) (reqs + 1)).2.2)

inductive ZoneData
  | notFound
  | error (part : List Rec)        -- a request failed; records of the pages already received are kept
  | ok (recs : List Rec)

def pagesOf (f : Faults) (z : Zone) (s : PState) : ZoneData × PState :=
  if (fetchPages f z.recs (z.recs.length / perPage + 2) 1 s.reqs).2.1
  then (.ok (fetchPages f z.recs (z.recs.length / perPage + 2) 1 s.reqs).1, { s with reqs := (fetchPages f z.recs (z.recs.length / perPage + 2) 1 s.reqs).2.2 })
  else (.error (fetchPages f z.recs (z.recs.length / perPage + 2) 1 s.reqs).1, { s with reqs := (fetchPages f z.recs (z.recs.length / perPage + 2) 1 s.reqs).2.2 })

/-- `getZoneData` -/
def getZoneData (f : Faults) (s : PState) (zone : Bytes) : ZoneData × PState :=
  match s.zoneIDs.find? (·.1 = zone) with
  | some (_, zid) =>
    if zid = [] then (.notFound, s) else
    match s.zones.find? (·.id = zid) with
    | none => (.ok [], s)   -- unreachable in the campaign (ids are stable)
    | some z => pagesOf f z s
  | none =>
    if f s.reqs then (.error [], { s with reqs := s.reqs + 1 }) else
    match s.zones.find? (·.name = zone) with
    | none => (.notFound, { s with zoneIDs := s.zoneIDs ++ [(zone, [])], reqs := s.reqs + 1 })
    | some z => pagesOf f z { s with zoneIDs := s.zoneIDs ++ [(zone, z.id)], reqs := s.reqs + 1 }

/-- apply a PATCH to the API's data -/
def applyPatch (zones : List Zone) (rid value : Bytes) : List Zone :=
  zones.map fun z => { z with recs := z.recs.map fun r => if r.id = rid then { r with value := value } else r }

/-- per-call data map: (zone, record name) → record; `fetched` = zones already loaded in this call -/
structure CallSt where
  fetched : List Bytes := []
  data : List (Tgt × Rec) := []
deriving Repr

/-- last binding wins when a zone lists two records with one name -/
def lookupRec (d : List (Tgt × Rec)) (t : Tgt) : Option Rec := (d.reverse.find? (·.1 = t)).map (·.2)

/-- load the zone of a target unless already tried in this call: status to report (if any) -/
def loadZone (f : Faults) (s : PState) (c : CallSt) (t : Tgt) : Option Status × PState × CallSt :=
  if c.fetched.contains t.zone then (none, s, c)
  else
    match getZoneData f s t.zone with
    | (.notFound, s') => (some .notFound, s', { c with fetched := c.fetched ++ [t.zone] })
    | (.error rs, s') => (some .error, s', { fetched := c.fetched ++ [t.zone], data := c.data ++ rs.map fun r => (⟨t.zone, r.name⟩, r) })
    | (.ok rs, s') => (none, s', { fetched := c.fetched ++ [t.zone], data := c.data ++ rs.map fun r => (⟨t.zone, r.name⟩, r) })

/-- what happens to one target once its zone is loaded -/
def oneTarget (f : Faults) (new : Bytes) (s : PState) (c : CallSt) (t : Tgt) : Status × PState × CallSt :=
  match lookupRec c.data t with
  | none => (.notFound, s, c)
  | some r =>
    match rewrite r.value new with
    | none => (.noChange, s, c)
    | some v =>
      if f s.reqs then (.error, { s with reqs := s.reqs + 1 }, c)
      else (.updated, { s with reqs := s.reqs + 1, zones := applyPatch s.zones r.id v, patches := s.patches ++ [(r.id, v)] },
            { c with data := c.data ++ [(t, { r with value := v })] })

def publishLoop (f : Faults) (new : Bytes) : List Tgt → PState → CallSt → List Status × PState
  | [], s, _ => ([], s)
  | t :: ts, s, c =>
    match loadZone f s c t with
    | (some st, s', c') => ((st :: (publishLoop f new ts s' c').1), (publishLoop f new ts s' c').2)
    | (none, s', c') =>
      ((oneTarget f new s' c' t).1 :: (publishLoop f new ts (oneTarget f new s' c' t).2.1 (oneTarget f new s' c' t).2.2).1,
       (publishLoop f new ts (oneTarget f new s' c' t).2.1 (oneTarget f new s' c' t).2.2).2)

/-- `PublishECH(records, configList)` with `new` = base64(configList) -/
def publish (f : Faults) (s : PState) (targets : List Tgt) (new : Bytes) : List Status × PState :=
  publishLoop f new targets s {}

end Publish
