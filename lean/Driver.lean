import EchVerif.Hex
import EchVerif.ECH.Config
import EchVerif.ECH.Conn
import EchVerif.Spec.Hello
import EchVerif.DNS.Text
/-
  echdrv: line protocol driver.  One op per input line, one answer per output line.
  Imports no Mathlib (so that it links).  Each handler lives next to the model it drives.
-/
open Hex ECH TLS

namespace Drv

def showSuites (cs : List CipherSuite) : String :=
  showNatList (cs.flatMap fun c => [c.kdf, c.aead])

def readSuites (s : String) : Option (List CipherSuite) := do
  let ns ← natList s
  let rec go : List Nat → Option (List CipherSuite)
    | [] => some []
    | k :: a :: r => (go r).map (⟨k, a⟩ :: ·)
    | _ => none
  go ns

def showSpec (c : ConfigSpec) : String :=
  s!"{c.version} {c.id} {c.kem} {hex c.publicKey} {showSuites c.suites} {c.maxNameLen} {hex c.publicName}"

/-- per-case state of the Conn family ops -/
structure World where
  H : Hpke := {}
  keys : List Key := []
  st : St := {}
  tr : Tr := { chunks := [], fin := .eof }
  outSeen : Nat := 0

def ioStr : IOErr → String
  | .eof => "eof" | .fail => "fail" | .closed => "closed" | .timeout => "timeout"

def errStr : Option Err → String
  | none => "-"
  | some .unexpected => "unexpected"
  | some .illegal => "illegal"
  | some .decode => "decode"
  | some .missing => "missing"
  | some .decrypt => "decrypt"
  | some .other => "other"
  | some .panic => "panic"
  | some (.io e) => "io:" ++ ioStr e

def finOf (s : String) : Option IOErr :=
  match s with
  | "eof" => some .eof | "fail" => some .fail | "timeout" => some .timeout | _ => none

/-- bytes written towards the client since the previous op -/
def outDelta (w : World) (t : Tr) : String := hex (t.out.drop w.outSeen)

def connOp (w : World) (toks : List String) : Option (World × String) :=
  match toks with
  | ["reset"] => some ({}, "ok")
  | ["key", cfg, priv] => do
    let cfg ← unhex cfg; let priv ← unhex priv
    some ({ w with keys := w.keys ++ [⟨cfg, priv⟩] }, "ok")
  | ["hpke-priv", kem, priv] => do
    let kem ← kem.toNat?; let priv ← unhex priv
    some ({ w with H := { w.H with privOk := (kem, priv) :: w.H.privOk } }, "ok")
  | ["hpke-setup", priv, kem, kdf, aead, enc] => do
    let priv ← unhex priv; let kem ← kem.toNat?; let kdf ← kdf.toNat?; let aead ← aead.toNat?; let enc ← unhex enc
    some ({ w with H := { w.H with setupOk := (priv, kem, kdf, aead, enc) :: w.H.setupOk } }, "ok")
  | ["hpke-seal", priv, kem, kdf, aead, info, enc, seq, aad, ct, pt] => do
    let priv ← unhex priv; let kem ← kem.toNat?; let kdf ← kdf.toNat?; let aead ← aead.toNat?
    let info ← unhex info; let enc ← unhex enc; let seq ← seq.toNat?
    let aad ← unhex aad; let ct ← unhex ct; let pt ← unhex pt
    some ({ w with H := { w.H with seals := ⟨priv, kem, kdf, aead, info, enc, seq, aad, ct, pt⟩ :: w.H.seals } }, "ok")
  | ["new", chunks, fin] => do
    let chunks ← unhexList chunks; let fin ← finOf fin
    let r := newConn w.H w.keys { chunks := chunks, fin := fin }
    let w' := { w with st := r.st, tr := r.tr, outSeen := r.tr.out.length }
    some (w', s!"err={errStr r.err} accepted={if r.st.accepted then 1 else 0} presented={if r.st.presented then 1 else 0} sni={hex r.st.serverName} alpn={hexList r.st.alpn} out={hex r.tr.out} closed={if r.tr.closed then 1 else 0}")
  | ["feed", chunks, fin] => do
    let chunks ← unhexList chunks; let fin ← finOf fin
    some ({ w with tr := { w.tr with chunks := w.tr.chunks ++ chunks, fin := fin } }, "ok")
  | ["read", n] => do
    let n ← n.toNat?
    let r := connRead w.H w.st w.tr n
    let w' := { w with st := r.st, tr := r.tr, outSeen := r.tr.out.length }
    some (w', s!"data={hex r.data} err={errStr r.err} out={outDelta w r.tr} closed={if r.tr.closed then 1 else 0}")
  | ["write", b] => do
    let b ← unhex b
    let r := connWrite w.st w.tr b
    let w' := { w with st := r.st, tr := r.tr, outSeen := r.tr.out.length }
    some (w', s!"n={r.n} err={errStr r.err} out={outDelta w r.tr} closed={if r.tr.closed then 1 else 0}")
  | ["state"] =>
    some (w, s!"retry={w.st.retry} readPT={w.st.readPT} writePT={w.st.writePT} readBuf={w.st.readBuf.length} writeBuf={w.st.writeBuf.length} seq={(w.st.ctx.map (·.seq)).getD 0}")
  | _ => none

/-- specification predicates evaluated on implementation output (Conn family) -/
def specOp (toks : List String) : Option String :=
  match toks with
  -- C03: impl's first delivered record must be the spec inner hello; names must be those of that hello
  | ["c03-spec", enc, outerRec, delivered, sni, alpn] => do
    let enc ← unhex enc; let outerRec ← unhex outerRec; let delivered ← unhex delivered
    let sni ← unhex sni; let alpn ← unhexList alpn
    match Spec.bodyOfRecord outerRec with
    | none => some "S fail outer-record-unreadable"
    | some body =>
      match Spec.fields body with
      | none => some "S fail outer-fields-unreadable"
      | some f =>
        match Spec.specInner enc f.sid f.extBlock with
        | none => some "S fail specInner-undefined-but-accepted"
        | some want =>
          if want ≠ delivered then some "S fail delivered-record-differs-from-specInner" else
          match Spec.bodyOfRecord want with
          | none => some "S fail spec-record-unreadable"
          | some ib =>
            match (Spec.fields ib).bind (fun g => Spec.extsOf g.extBlock) with
            | none => some "S fail spec-exts-unreadable"
            | some es =>
              if Spec.sniOfExts es ≠ sni then some "S fail ServerName-differs-from-inner" else
              if Spec.alpnOfExts es ≠ alpn then some "S fail ALPNProtos-differ-from-inner" else some "S ok"
  -- C03/C04: specInner must be undefined (the implementation aborted)
  | ["c03-undefined", enc, outerRec] => do
    let enc ← unhex enc; let outerRec ← unhex outerRec
    match (Spec.bodyOfRecord outerRec).bind Spec.fields with
    | none => some "S ok"
    | some f => if (Spec.specInner enc f.sid f.extBlock).isSome then some "S fail specInner-defined-but-aborted" else some "S ok"
  -- C05: delivered record = client's record up to header version bytes; names from an independent reading
  | ["c05-spec", rec, delivered, sni, alpn] => do
    let rec ← unhex rec; let delivered ← unhex delivered; let sni ← unhex sni; let alpn ← unhexList alpn
    if rec.length ≠ delivered.length then some "S fail length-differs" else
    if rec.take 1 ≠ delivered.take 1 ∨ rec.drop 3 ≠ delivered.drop 3 then some "S fail bytes-differ-beyond-record-version" else
    match (Spec.bodyOfRecord rec).bind Spec.fields with
    | none => some "S fail hello-unreadable"
    | some f =>
      match Spec.extsOf f.extBlock with
      | none => some "S fail exts-unreadable"
      | some es =>
        if Spec.sniOfExts es ≠ sni then some "S fail ServerName-differs" else
        if Spec.alpnOfExts es ≠ alpn then some "S fail ALPNProtos-differ" else some "S ok"
  -- L-AAD: the implementation-independent AAD of an outer record
  | ["aad-spec", rec] => do
    let rec ← unhex rec
    match (Spec.bodyOfRecord rec).bind Spec.aadSpec with
    | some a => some ("ok " ++ hex a)
    | none => some "err"
  | _ => none

def dnsOp (toks : List String) : Option String :=
  match toks with
  | ["dns-decode", b] => do
    let b ← unhex b
    match DNS.decode b with
    | some m => some ("ok " ++ DNS.Text.showMsg m)
    | none => some "err"
  | ["dns-encode", hdr, q, a, b, c] => do
    let m ← DNS.Text.readEMsg hdr q a b c
    match DNS.encode m with
    | some bytes => some ("ok " ++ hex bytes)
    | none => some "panic"
  | ["dns-pad", hdr, q, a, b, c] => do
    let m ← DNS.Text.readEMsg hdr q a b c
    match DNS.addPadding m with
    | some m' => some ("ok " ++ DNS.Text.showEMsg m')
    | none => some "panic"
  | ["dns-rcode", rc, ttl] => do
    let rc ← rc.toNat?
    let ttl := if ttl = "-" then none else ttl.toNat?
    some (toString (DNS.responseCode rc ttl))
  | _ => none

def handle (toks : List String) : String :=
  match toks with
  -- C11 ------------------------------------------------------------------------------
  | ["cfg-bytes", ver, id, kem, pk, suites, name] =>
    match ver.toNat?, id.toNat?, kem.toNat?, unhex pk, readSuites suites, unhex name with
    | some ver, some id, some kem, some pk, some suites, some name =>
      match (ConfigSpec.bytes ⟨ver, id, kem, pk, suites, 0, name⟩) with
      | some b => s!"ok {hex b}"
      | none => "err"
    | _, _, _, _, _, _ => "bad-op"
  | ["cfg-parse", b] =>
    match unhex b with
    | some b =>
      match parseConfig b with
      | some (c, rest) => s!"ok {showSpec c} rest={hex rest}"
      | none => "err"
    | none => "bad-op"
  | ["cfg-spec", b] =>
    match unhex b with
    | some b =>
      match configSpec b with
      | some c => s!"ok {showSpec c}"
      | none => "err"
    | none => "bad-op"
  | ["cfg-wf", b] =>
    match unhex b with
    | some b => if Spec.isECHConfig b then "S ok" else "S fail isECHConfig"
    | none => "bad-op"
  | ["cfglist", l] =>
    match unhexList l with
    | some l => match configList l with
      | some b => s!"ok {hex b}"
      | none => "err"
    | none => "bad-op"
  | ["cfglist-parse", b] =>
    match unhex b with
    | some b => match parseConfigList b with
      | some cs => "ok " ++ ";".intercalate (cs.map showSpec)
      | none => "err"
    | none => "bad-op"
  | ["cfglist-wf", b] =>
    match unhex b with
    | some b => if Spec.isECHConfigList b then "S ok" else "S fail isECHConfigList"
    | none => "bad-op"
  | _ => "bad-op"

partial def loop (h : IO.FS.Stream) (out : IO.FS.Stream) (w : World) : IO Unit := do
  let line ← h.getLine
  if line.isEmpty then return ()
  let toks := (line.trimAscii.toString.splitOn " ").filter (· ≠ "")
  match connOp w toks with
  | some (w', ans) => out.putStrLn ans; loop h out w'
  | none =>
    match specOp toks with
    | some ans => out.putStrLn ans; loop h out w
    | none =>
      match dnsOp toks with
      | some ans => out.putStrLn ans; loop h out w
      | none => out.putStrLn (handle toks); loop h out w

end Drv

def main : IO Unit := do
  let out ← IO.getStdout
  Drv.loop (← IO.getStdin) out {}
  out.flush
