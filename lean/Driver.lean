import EchVerif.Hex
import EchVerif.ECH.Config
import EchVerif.ECH.Conn
import EchVerif.Spec.Hello
import EchVerif.DNS.Text
import EchVerif.Resolve.Targets
import EchVerif.Resolve.Resolve
import EchVerif.Resolve.CacheLts
import EchVerif.Dial.Config
import EchVerif.Ctx.Lts
import EchVerif.Dial.Lts
import EchVerif.Publish
import EchVerif.Transport
/-
  echdrv: line protocol driver.  One op per input line, one answer per output line.
  Imports no Mathlib (so that it links).  Each handler lives next to the model it drives.
-/
open Hex ECH TLS

namespace Drv

def showSuites (cs : List CipherSuite) : String :=
  showNatList (cs.flatMap fun c => [c.kdf, c.aead])

def readSuites (s : String) : Option (List CipherSuite) := do
  let ns ← natList s
  let rec go : List Nat → Option (List CipherSuite)
    | [] => some []
    | k :: a :: r => (go r).map (⟨k, a⟩ :: ·)
    | _ => none
  go ns

def showSpec (c : ConfigSpec) : String :=
  s!"{c.version} {c.id} {c.kem} {hex c.publicKey} {showSuites c.suites} {c.maxNameLen} {hex c.publicName}"

/-- per-case state of the Conn family ops -/
structure World where
  pub : Publish.PState := { zones := [] }
  cache : Resolve.CState := {}
  H : Hpke := {}
  keys : List Key := []
  st : St := {}
  tr : Tr := { chunks := [], fin := .eof }
  outSeen : Nat := 0

def ioStr : IOErr → String
  | .eof => "eof" | .fail => "fail" | .closed => "closed" | .timeout => "timeout"

def errStr : Option Err → String
  | none => "-"
  | some .unexpected => "unexpected"
  | some .illegal => "illegal"
  | some .decode => "decode"
  | some .missing => "missing"
  | some .decrypt => "decrypt"
  | some .other => "other"
  | some .panic => "panic"
  | some (.io e) => "io:" ++ ioStr e

def finOf (s : String) : Option IOErr :=
  match s with
  | "eof" => some .eof | "fail" => some .fail | "timeout" => some .timeout | _ => none

/-- bytes written towards the client since the previous op -/
def outDelta (w : World) (t : Tr) : String := hex (t.out.drop w.outSeen)

def connOp (w : World) (toks : List String) : Option (World × String) :=
  match toks with
  | ["reset"] => some ({}, "ok")
  | ["key", cfg, priv] => do
    let cfg ← unhex cfg; let priv ← unhex priv
    some ({ w with keys := w.keys ++ [⟨cfg, priv⟩] }, "ok")
  | ["hpke-priv", kem, priv] => do
    let kem ← kem.toNat?; let priv ← unhex priv
    some ({ w with H := { w.H with privOk := (kem, priv) :: w.H.privOk } }, "ok")
  | ["hpke-setup", priv, kem, kdf, aead, enc] => do
    let priv ← unhex priv; let kem ← kem.toNat?; let kdf ← kdf.toNat?; let aead ← aead.toNat?; let enc ← unhex enc
    some ({ w with H := { w.H with setupOk := (priv, kem, kdf, aead, enc) :: w.H.setupOk } }, "ok")
  | ["hpke-seal", priv, kem, kdf, aead, info, enc, seq, aad, ct, pt] => do
    let priv ← unhex priv; let kem ← kem.toNat?; let kdf ← kdf.toNat?; let aead ← aead.toNat?
    let info ← unhex info; let enc ← unhex enc; let seq ← seq.toNat?
    let aad ← unhex aad; let ct ← unhex ct; let pt ← unhex pt
    some ({ w with H := { w.H with seals := ⟨priv, kem, kdf, aead, info, enc, seq, aad, ct, pt⟩ :: w.H.seals } }, "ok")
  | ["new", chunks, fin] => do
    let chunks ← unhexList chunks; let fin ← finOf fin
    let r := newConn w.H w.keys { chunks := chunks, fin := fin }
    let w' := { w with st := r.st, tr := r.tr, outSeen := r.tr.out.length }
    some (w', s!"err={errStr r.err} accepted={if r.st.accepted then 1 else 0} presented={if r.st.presented then 1 else 0} sni={hex r.st.serverName} alpn={hexList r.st.alpn} out={hex r.tr.out} closed={if r.tr.closed then 1 else 0}")
  | ["feed", chunks, fin] => do
    let chunks ← unhexList chunks; let fin ← finOf fin
    some ({ w with tr := { w.tr with chunks := w.tr.chunks ++ chunks, fin := fin } }, "ok")
  | ["read", n] => do
    let n ← n.toNat?
    let r := connRead w.H w.st w.tr n
    let w' := { w with st := r.st, tr := r.tr, outSeen := r.tr.out.length }
    some (w', s!"data={hex r.data} err={errStr r.err} out={outDelta w r.tr} closed={if r.tr.closed then 1 else 0}")
  | ["write", b] => do
    let b ← unhex b
    let r := connWrite w.st w.tr b
    let w' := { w with st := r.st, tr := r.tr, outSeen := r.tr.out.length }
    some (w', s!"n={r.n} err={errStr r.err} out={outDelta w r.tr} closed={if r.tr.closed then 1 else 0}")
  | ["names"] =>
    -- Conn.ServerName() / Conn.ALPNProtos() as they are NOW (they must not drift after the first flight)
    some (w, s!"sni={hex w.st.serverName} alpn={hexList w.st.alpn}")
  | ["state"] =>
    some (w, s!"retry={w.st.retry} readPT={w.st.readPT} writePT={w.st.writePT} readBuf={w.st.readBuf.length} writeBuf={w.st.writeBuf.length} seq={(w.st.ctx.map (·.seq)).getD 0}")
  | _ => none

/-- specification predicates evaluated on implementation output (Conn family) -/
def specOp (toks : List String) : Option String :=
  match toks with
  -- C03: impl's first delivered record must be the spec inner hello; names must be those of that hello
  | ["c03-spec", enc, outerRec, delivered, sni, alpn] => do
    let enc ← unhex enc; let outerRec ← unhex outerRec; let delivered ← unhex delivered
    let sni ← unhex sni; let alpn ← unhexList alpn
    match Spec.bodyOfRecord outerRec with
    | none => some "S fail outer-record-unreadable"
    | some body =>
      match Spec.fields body with
      | none => some "S fail outer-fields-unreadable"
      | some f =>
        match Spec.specInner enc f.sid f.extBlock with
        | none => some "S fail specInner-undefined-but-accepted"
        | some want =>
          if want ≠ delivered then some "S fail delivered-record-differs-from-specInner" else
          match Spec.bodyOfRecord want with
          | none => some "S fail spec-record-unreadable"
          | some ib =>
            match (Spec.fields ib).bind (fun g => Spec.extsOf g.extBlock) with
            | none => some "S fail spec-exts-unreadable"
            | some es =>
              if Spec.sniOfExts es ≠ sni then some "S fail ServerName-differs-from-inner" else
              if Spec.alpnOfExts es ≠ alpn then some "S fail ALPNProtos-differ-from-inner" else some "S ok"
  -- C03/C04: specInner must be undefined (the implementation aborted)
  | ["c03-undefined", enc, outerRec] => do
    let enc ← unhex enc; let outerRec ← unhex outerRec
    match (Spec.bodyOfRecord outerRec).bind Spec.fields with
    | none => some "S ok"
    | some f => if (Spec.specInner enc f.sid f.extBlock).isSome then some "S fail specInner-defined-but-aborted" else some "S ok"
  -- C05: delivered record = client's record up to header version bytes; names from an independent reading
  | ["c05-spec", rec, delivered, sni, alpn] => do
    let rec ← unhex rec; let delivered ← unhex delivered; let sni ← unhex sni; let alpn ← unhexList alpn
    if rec.length ≠ delivered.length then some "S fail length-differs" else
    if rec.take 1 ≠ delivered.take 1 ∨ rec.drop 3 ≠ delivered.drop 3 then some "S fail bytes-differ-beyond-record-version" else
    match (Spec.bodyOfRecord rec).bind Spec.fields with
    | none => some "S fail hello-unreadable"
    | some f =>
      match Spec.extsOf f.extBlock with
      | none => some "S fail exts-unreadable"
      | some es =>
        if Spec.sniOfExts es ≠ sni then some "S fail ServerName-differs" else
        if Spec.alpnOfExts es ≠ alpn then some "S fail ALPNProtos-differ" else some "S ok"
  -- L-AAD: the implementation-independent AAD of an outer record
  | ["aad-spec", rec] => do
    let rec ← unhex rec
    match (Spec.bodyOfRecord rec).bind Spec.aadSpec with
    | some a => some ("ok " ++ hex a)
    | none => some "err"
  | _ => none

def dnsOp (toks : List String) : Option String :=
  match toks with
  | ["dns-decode", b] => do
    let b ← unhex b
    match DNS.decode b with
    | some m => some ("ok " ++ DNS.Text.showMsg m)
    | none => some "err"
  | ["dns-encode", hdr, q, a, b, c] => do
    let m ← DNS.Text.readEMsg hdr q a b c
    match DNS.encode m with
    | some bytes => some ("ok " ++ hex bytes)
    | none => some "panic"
  | ["dns-pad", hdr, q, a, b, c] => do
    let m ← DNS.Text.readEMsg hdr q a b c
    match DNS.addPadding m with
    | some m' => some ("ok " ++ DNS.Text.showEMsg m')
    | none => some "panic"
  | ["dns-rcode", rc, ttl] => do
    let rc ← rc.toNat?
    let ttl := if ttl = "-" then none else ttl.toNat?
    some (toString (DNS.responseCode rc ttl))
  | _ => none

namespace RT
open Resolve DNS.Text
def optB (s : String) : Option (Option Bytes) := if s = "nil" then some none else (unhex s).map some
def showOptB : Option Bytes → String
  | none => "nil"
  | some b => hex b
def readHttps (s : String) : Option HttpsRec :=
  match s.splitOn ":" with
  | [p, t, alpn, nd, port, v4, v6, ech] => do
    some { priority := ← p.toNat?, target := ← unhex t, alpn := ← unPlus alpn, noDefaultALPN := nd = "1", port := ← port.toNat?,
           v4 := ← unPlus v4, v6 := ← unPlus v6, ech := ← optB ech }
  | _ => none
def readHttpsList (s : String) : Option (List HttpsRec) := if s = "_" then some [] else (s.splitOn ";").mapM readHttps
def readAdditional (s : String) : Option (List (Bytes × List IP)) :=
  if s = "_" then some [] else (s.splitOn ";").mapM fun x => match x.splitOn "=" with
    | [n, ips] => do some (← unhex n, ← unPlus ips)
    | _ => none
def readNet (s : String) : Option Network :=
  match s with
  | "tcp" => some .tcp | "tcp4" => some .tcp4 | "tcp6" => some .tcp6
  | "udp" => some .udp | "udp4" => some .udp4 | "udp6" => some .udp6 | _ => none
def showTargets (l : List Target) : String :=
  semi (l.map fun t => s!"{hex t.ip}@{t.port}/{showOptB t.ech}/{hexL t.alpn}")
def readResult (port addr https add : String) : Option Result := do
  some { port := ← port.toNat?, address := ← unPlus addr, https := ← readHttpsList https, additional := ← readAdditional add }
end RT

namespace RT
open Resolve DNS.Text
def showHttps (h : HttpsRec) : String :=
  s!"{h.priority}:{hex h.target}:{hexL h.alpn}:{if h.noDefaultALPN then 1 else 0}:{h.port}:{hexL h.v4}:{hexL h.v6}:{showOptB h.ech}"
def insSorted (x : String) : List String → List String
  | [] => [x]
  | y :: ys => if x < y then x :: y :: ys else y :: insSorted x ys
def sortStrs (l : List String) : List String := l.foldr insSorted []
/-- canonical: records ordered by (priority, text) since sort.Slice is not stable; map keys sorted -/
def showResult (r : Result) : String :=
  s!"{r.port} {hexL r.address} {semi (canonHttps r.https)} {semi (sortStrs (r.additional.map fun (k, v) => s!"{hex k}={hexL v}"))}"
where
  canonHttps (l : List HttpsRec) : List String :=
    let keyed := l.map fun h => (h.priority, showHttps h)
    let rec ins (x : Nat × String) : List (Nat × String) → List (Nat × String)
      | [] => [x]
      | y :: ys => if x.1 < y.1 ∨ (x.1 = y.1 ∧ x.2 < y.2) then x :: y :: ys else y :: ins x ys
    (keyed.foldr ins []).map (·.2)

def readAData (s : String) : Option AData :=
  if s = "other" then some .other else
  match s.splitOn ":" with
  | ["ip", b] => (unhex b).map .ip
  | ["name", b] => (unhex b).map .name
  | "https" :: rest => (readHttps (":".intercalate rest)).map .https
  | _ => none

def readAns (s : String) : Option Ans :=
  match s.splitOn "," with
  | [ttl, owner, typ, d] => do some ⟨← unhex owner, ← typ.toNat?, ← ttl.toNat?, ← readAData d⟩
  | _ => none

def readEntry (s : String) : Option ((Bytes × Nat) × Resp) :=
  match s.splitOn "=" with
  | key :: restl =>
    let rest := "=".intercalate restl
    match key.splitOn "/" with
    | [n, t] => do
      let n ← unhex n; let t ← t.toNat?
      match rest.splitOn "~" with
      | ["fail"] => some ((n, t), .fail)
      | rc :: answers => do
        let rc ← rc.toNat?
        let as ← answers.mapM readAns
        some ((n, t), .msg rc as)
      | _ => none
    | _ => none
  | _ => none

def readUniverse (s : String) : Option Universe :=
  if s = "_" then some (fun _ _ => .msg 3 []) else do
  let es ← (s.splitOn ";").mapM readEntry
  some fun n t => match es.find? (fun e => e.1 = (n, t)) with
    | some e => e.2
    | none => .msg 3 []

def readParsed (scheme name port lh ip : String) : Option Parsed := do
  let ipv ← (if ip = "-" then some none else (unhex ip).map some)
  some { scheme := ← unhex scheme, name := ← unhex name, port := ← port.toNat?, isLocalhost := lh = "1", ip := ipv }

def errS : Option RErr → String
  | none => "-"
  | some .invalidName => "invalidname" | some .format => "format" | some .servfail => "servfail"
  | some .nxdomain => "nxdomain" | some .notimp => "notimp" | some .refused => "refused"
  -- an error with no identity of its own (a response code without a sentinel, a transport failure):
  -- callers can tell neither from the other except by the message text, which is not compared
  | some .rcode => "unnamed" | some .transport => "unnamed"
end RT

structure CacheWorld where
  c : Resolve.CState := {}

def resolveOp2 (cw : CacheWorld) (toks : List String) : Option (CacheWorld × String) :=
  match toks with
  | ["resolve", scheme, name, port, lh, ip, uni] => do
    let p ← RT.readParsed scheme name port lh ip
    let U ← RT.readUniverse uni
    let r := Resolve.resolve U p
    let log := if r.s.isEmpty then "_" else ",".intercalate (r.s.map fun (n, t) => s!"{hex (Resolve.trimDot n)}/{t}")
    some (cw, s!"res={RT.showResult r.result} err={RT.errS r.err} log={log}")
  | ["cache-reset"] => some ({}, "ok")
  | ["cache-fresh", startedAt, rcvd, ttl] => do
    -- one observed answer of a concurrent lookup: call start, latest possible arrival of the response
    -- it came from, that response's smallest TTL (the predicate of C16_concurrent_answer_fresh)
    let f : CacheLts.Fetch := ⟨← rcvd.toNat?, ← ttl.toNat?, 0⟩
    some (cw, if CacheLts.answerFresh (← startedAt.toNat?) f then "S ok" else "S fail answer-older-than-its-ttl-at-call-start")
  | ["cache-resolve", scheme, name, port, lh, ip, uni, now] => do
    let p ← RT.readParsed scheme name port lh ip
    let U ← RT.readUniverse uni
    let now ← now.toNat?
    let c0 := { cw.c with now := now, upstream := [] }
    let r := Resolve.resolveWith (Resolve.lookupCached U) c0 p
    let up := if r.s.upstream.isEmpty then "_" else ",".intercalate (r.s.upstream.map fun (n, t, tm) => s!"{hex n}/{t}@{tm}")
    some ({ c := r.s }, s!"res={RT.showResult r.result} err={RT.errS r.err} up={up}")
  | _ => none

namespace DT
open Dial
def readEch (s : String) : Option (Option EchList) :=
  if s = "nil" then some none else if s = "boot" then some (some .boot) else (unhex s).map fun b => some (.bytes b)
def showEch : Option EchList → String
  | none => "nil" | some .boot => "boot" | some (.bytes b) => hex b
def readTargets (s : String) : Option (List Target) :=
  if s = "_" then some [] else (s.splitOn ";").mapM fun x => match x.splitOn "," with
    | [h, a, e, er] => do some ⟨← unhex h, ← unhex a, ← RT.optB e, er = "1"⟩
    | _ => none
def readOutcomes (s : String) : Option (List Outcome) :=
  if s = "_" then some [] else (s.splitOn ",").mapM fun x =>
    if x = "ok" then some .ok else if x = "err" then some .err else
    match x.splitOn ":" with
    | ["rej", r] => (unhex r).map .reject
    | _ => none
end DT

namespace PT
open Publish
def readZones (s : String) : Option (List Zone) :=
  if s = "_" then some [] else (s.splitOn ";").mapM fun z =>
    match z.splitOn ":" with
    | [hd, recs] =>
      match hd.splitOn "," with
      | [zn, zid] => do
        let rs ← (if recs = "_" then some [] else (recs.splitOn "|").mapM fun r => match r.splitOn "," with
          | [rid, rn, v] => do some (⟨← unhex rid, ← unhex rn, ← unhex v⟩ : Rec)
          | _ => none)
        some ⟨← unhex zn, ← unhex zid, rs⟩
      | _ => none
    | _ => none
def readTgts (s : String) : Option (List Tgt) :=
  if s = "_" then some [] else (s.splitOn ";").mapM fun t => match t.splitOn "," with
    | [z, n] => do some ⟨← unhex z, ← unhex n⟩
    | _ => none
def statusS : Status → String
  | .updated => "updated" | .notFound => "notfound" | .noChange => "nochange" | .error => "error"
def showZones (zs : List Zone) : String :=
  DNS.Text.semi (zs.map fun z => s!"{hex z.name},{hex z.id}:" ++
    (if z.recs.isEmpty then "_" else "|".intercalate (z.recs.map fun r => s!"{hex r.id},{hex r.name},{hex r.value}")))
end PT

def publishOp (w : World) (toks : List String) : Option (World × String) :=
  match toks with
  | ["cf-reset", zones] => do
    let zs ← PT.readZones zones
    some ({ w with pub := { zones := zs } }, "ok")
  | ["cf-publish", tgts, new, faults] => do
    let ts ← PT.readTgts tgts
    let new ← unhex new
    let fl ← natList faults
    let s0 := { w.pub with reqs := 0, patches := [] }
    let r := Publish.publish (fun n => fl.contains n) s0 ts new
    let patches := DNS.Text.semi (r.2.patches.map fun (i, v) => s!"{hex i}={hex v}")
    some ({ w with pub := r.2 }, s!"results={",".intercalate (r.1.map PT.statusS)} patches={patches} reqs={r.2.reqs}")
  | ["cf-state"] => some (w, PT.showZones w.pub.zones)
  | ["cf-rewrite", v, new] => do
    let v ← unhex v; let new ← unhex new
    match Publish.rewrite v new with
    | none => some (w, "nochange")
    | some x => some (w, "ok " ++ hex x)
  | _ => none

def readObs (s : String) : Option Ctx.Obs :=
  match s with
  | "hello" => some .hello | "cancel" => some .cancel | "fire" => some .fire | "clear" => some .clear
  | "ret-ok" => some .retOk | "ret-err" => some .retErr | _ => none

def dialOp (toks : List String) : Option String :=
  match toks with
  | ["plan", scheme, urlHost, split, hostHdr, hasH3, port, addr, https, add] => do
    let r ← RT.readResult port addr https add
    let sp ← (if split = "-" then some none else match split.splitOn "," with
      | [h, p] => do some (some (← unhex h, ← unhex p))
      | _ => none)
    let i : Transport.In := { scheme := ← unhex scheme, urlHost := ← unhex urlHost, split := sp, hostHdr := ← unhex hostHdr,
                              hasH3 := hasH3 = "1", https := r.https }
    let hp := Transport.hostPort i
    let fr : Resolve.Result := { r with https := Transport.filtered i }
    some s!"scheme={hex (Transport.scheme' i)} key={hex (Transport.poolKey hp.2 (Transport.scheme' i) hp.1)} host={hex (Transport.hostHeader i)} tls={hex hp.1} h3={if Transport.useH3 i then 1 else 0} targets={RT.showTargets (Resolve.targets fr .tcp)}"
  | ["plan-dialled", scheme, urlHost, split, hostHdr, hasH3, port, addr, https, add, dialled] => do
    let r ← RT.readResult port addr https add
    let sp ← (if split = "-" then some none else match split.splitOn "," with
      | [h, p] => do some (some (← unhex h, ← unhex p))
      | _ => none)
    let i : Transport.In := { scheme := ← unhex scheme, urlHost := ← unhex urlHost, split := sp, hostHdr := ← unhex hostHdr,
                              hasH3 := hasH3 = "1", https := r.https }
    let fr : Resolve.Result := { r with https := Transport.filtered i }
    let ipS (b : Bytes) : String := match b with
      | [a, b, c, d] => s!"{a.toNat}.{b.toNat}.{c.toNat}.{d.toNat}"
      | _ => "?"
    -- each attempt with the ECH config list of the record that produced the address ("-": none)
    let echS (e : Option Bytes) : String := match e with
      | some (x :: xs) => hex (x :: xs)
      | _ => "-"
    -- over TCP, or - when HTTP/3 is chosen - over UDP (what the HTTP/3 round-tripper's Dial enumerates)
    let net : Resolve.Network := if Transport.useH3 i then .udp else .tcp
    let want := ",".intercalate ((Resolve.targets fr net).map fun t => s!"{ipS t.ip}:{t.port}/{echS t.ech}")
    let db ← (if dialled = "_" then some [] else unhex dialled)
    let got := (String.fromUTF8? (ByteArray.mk db.toArray)).getD "?"
    some (if want = got then "match" else s!"differ model {want} observed {got}")
  -- observations of one request ('?' = not observable on that path) checked against the plan
  | ["plan-check", scheme, urlHost, split, hostHdr, hasH3, port, addr, https, add, oh3, oscheme, okey, ohost, otls, otargets, oplain] => do
    let r ← RT.readResult port addr https add
    let sp ← (if split = "-" then some none else match split.splitOn "," with
      | [h, p] => do some (some (← unhex h, ← unhex p))
      | _ => none)
    let i : Transport.In := { scheme := ← unhex scheme, urlHost := ← unhex urlHost, split := sp, hostHdr := ← unhex hostHdr,
                              hasH3 := hasH3 = "1", https := r.https }
    let hp := Transport.hostPort i
    let fr : Resolve.Result := { r with https := Transport.filtered i }
    let chk (name obs want : String) : Option String := if obs = "?" ∨ obs = want then none else some s!"{name}: model {want} observed {obs}"
    let plain := Transport.scheme' i = Transport.bHttp
    let problems := [chk "h3" oh3 (if Transport.useH3 i then "1" else "0"), chk "scheme" oscheme (hex (Transport.scheme' i)),
      chk "key" okey (hex (Transport.poolKey hp.2 (Transport.scheme' i) hp.1)), chk "host" ohost (hex (Transport.hostHeader i)),
      chk "tls" otls (hex hp.1), chk "targets" otargets (RT.showTargets (Resolve.targets fr .tcp)),
      chk "plaintext-refused" oplain (if plain then "1" else "0")].filterMap id
    some (if problems.isEmpty then "match" else "differ " ++ "; ".intercalate problems)
  | ["ctx-trace", tr] => do
    let obs ← (tr.splitOn ",").mapM readObs
    some (if Ctx.accepts obs then "accept" else "reject")
  | ["dial-trace", nw, script, tr] => do
    let nW ← nw.toNat?
    let sc ← (script.splitOn ",").mapM fun (t : String) => match t with
      | "ok" => some DialLts.Script.ok | "fail" => some .fail
      | "refuse" => some .refuse | "rerr" => some .resolveErr | _ => none
    let readDObs : String → Option DialLts.Obs := fun t => match t.splitOn ":" with
      | ["cancel"] => some .cancel
      | ["start", k, l] => do some (.start (← k.toNat?) (l = "1"))
      | ["finish", k, o] => do some (.finish (← k.toNat?) (o = "1"))
      | ["close", k] => do some (.close (← k.toNat?))
      | ["ret-conn", k] => do some (.retConn (← k.toNat?))
      | ["ret-ctx"] => some .retCtx
      | ["ret-errs", ks] => do some (.retErrs (← (if ks = "" then [] else ks.splitOn "/").mapM String.toNat?))
      | _ => none
    let obs ← (if tr = "-" then [] else tr.splitOn ",").mapM readDObs
    let n := DialLts.acceptsUpTo sc nW obs
    some (if n ≠ obs.length then s!"reject-at {n}"
      else if DialLts.acceptsQuiescent sc nW obs then "accept" else "reject-not-quiescent")
  | ["dial-cfg", req, pn, sn, cech, targets, outs] => do
    let d : Dial.Dialer := ⟨req = "1", ← unhex pn⟩
    let caller : Dial.Cfg := ⟨← unhex sn, ← DT.readEch cech⟩
    let ts ← DT.readTargets targets
    let os ← DT.readOutcomes outs
    let r := Dial.dialSeq d caller ts os
    let calls := DNS.Text.semi (r.1.map fun c => s!"{hex c.addr},{hex c.cfg.serverName},{DT.showEch c.cfg.ech}")
    let res := match r.2 with | some a => hex a | none => "fail"
    some s!"calls={calls} result={res}"
  | _ => none

def resolveOp (toks : List String) : Option String :=
  match toks with
  | ["targets", net, port, addr, https, add, k] => do
    let r ← RT.readResult port addr https add
    let net ← RT.readNet net
    let k ← k.toNat?
    some (RT.showTargets (Resolve.targetsUpTo r net k))
  | ["targets-spec", net, port, addr, https, add, k, out] => do
    let r ← RT.readResult port addr https add
    let net ← RT.readNet net
    let k ← k.toNat?
    if RT.showTargets ((Resolve.TargetsSpec r net).take k) = out then some "S ok" else some "S fail targets-differ-from-TargetsSpec"
  | _ => none

def handle (toks : List String) : String :=
  match toks with
  -- C11 ------------------------------------------------------------------------------
  | ["cfg-bytes", ver, id, kem, pk, suites, name] =>
    match ver.toNat?, id.toNat?, kem.toNat?, unhex pk, readSuites suites, unhex name with
    | some ver, some id, some kem, some pk, some suites, some name =>
      match (ConfigSpec.bytes ⟨ver, id, kem, pk, suites, 0, name⟩) with
      | some b => s!"ok {hex b}"
      | none => "err"
    | _, _, _, _, _, _ => "bad-op"
  | ["cfg-parse", b] =>
    match unhex b with
    | some b =>
      match parseConfig b with
      | some (c, rest) => s!"ok {showSpec c} rest={hex rest}"
      | none => "err"
    | none => "bad-op"
  | ["cfg-spec", b] =>
    match unhex b with
    | some b =>
      match configSpec b with
      | some c => s!"ok {showSpec c}"
      | none => "err"
    | none => "bad-op"
  | ["cfg-wf", b] =>
    match unhex b with
    | some b => if Spec.isECHConfig b then "S ok" else "S fail isECHConfig"
    | none => "bad-op"
  | ["cfglist", l] =>
    match unhexList l with
    | some l => match configList l with
      | some b => s!"ok {hex b}"
      | none => "err"
    | none => "bad-op"
  | ["cfglist-parse", b] =>
    match unhex b with
    | some b => match parseConfigList b with
      | some cs => "ok " ++ ";".intercalate (cs.map showSpec)
      | none => "err"
    | none => "bad-op"
  | ["cfglist-wf", b] =>
    match unhex b with
    | some b => if Spec.isECHConfigList b then "S ok" else "S fail isECHConfigList"
    | none => "bad-op"
  | _ => "bad-op"

partial def loop (h : IO.FS.Stream) (out : IO.FS.Stream) (w : World) : IO Unit := do
  let line ← h.getLine
  if line.isEmpty then return ()
  let toks := (line.trimAscii.toString.splitOn " ").filter (· ≠ "")
  match (match connOp w toks with | some r => some r | none => publishOp w toks) with
  | some (w', ans) => out.putStrLn ans; loop h out w'
  | none =>
    match specOp toks with
    | some ans => out.putStrLn ans; loop h out w
    | none =>
      match dnsOp toks with
      | some ans => out.putStrLn ans; loop h out w
      | none =>
        match resolveOp toks with
        | some ans => out.putStrLn ans; loop h out w
        | none =>
          match resolveOp2 { c := w.cache } toks with
          | some (cw, ans) => out.putStrLn ans; loop h out { w with cache := cw.c }
          | none =>
            match dialOp toks with
            | some ans => out.putStrLn ans; loop h out w
            | none => out.putStrLn (handle toks); loop h out w

end Drv

def main : IO Unit := do
  let out ← IO.getStdout
  Drv.loop (← IO.getStdin) out {}
  out.flush
