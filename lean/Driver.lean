import EchVerif.Hex
import EchVerif.ECH.Config
/-
  echdrv: line protocol driver.  One op per input line, one answer per output line.
  Imports no Mathlib (so that it links).  Each handler lives next to the model it drives.
-/
open Hex ECH

namespace Drv

def showSuites (cs : List CipherSuite) : String :=
  showNatList (cs.flatMap fun c => [c.kdf, c.aead])

def readSuites (s : String) : Option (List CipherSuite) := do
  let ns ← natList s
  let rec go : List Nat → Option (List CipherSuite)
    | [] => some []
    | k :: a :: r => (go r).map (⟨k, a⟩ :: ·)
    | _ => none
  go ns

def showSpec (c : ConfigSpec) : String :=
  s!"{c.version} {c.id} {c.kem} {hex c.publicKey} {showSuites c.suites} {c.maxNameLen} {hex c.publicName}"

def handle (toks : List String) : String :=
  match toks with
  -- C11 ------------------------------------------------------------------------------
  | ["cfg-bytes", ver, id, kem, pk, suites, name] =>
    match ver.toNat?, id.toNat?, kem.toNat?, unhex pk, readSuites suites, unhex name with
    | some ver, some id, some kem, some pk, some suites, some name =>
      match (ConfigSpec.bytes ⟨ver, id, kem, pk, suites, 0, name⟩) with
      | some b => s!"ok {hex b}"
      | none => "err"
    | _, _, _, _, _, _ => "bad-op"
  | ["cfg-parse", b] =>
    match unhex b with
    | some b =>
      match parseConfig b with
      | some (c, rest) => s!"ok {showSpec c} rest={hex rest}"
      | none => "err"
    | none => "bad-op"
  | ["cfg-spec", b] =>
    match unhex b with
    | some b =>
      match configSpec b with
      | some c => s!"ok {showSpec c}"
      | none => "err"
    | none => "bad-op"
  | ["cfg-wf", b] =>
    match unhex b with
    | some b => if Spec.isECHConfig b then "S ok" else "S fail isECHConfig"
    | none => "bad-op"
  | ["cfglist", l] =>
    match unhexList l with
    | some l => match configList l with
      | some b => s!"ok {hex b}"
      | none => "err"
    | none => "bad-op"
  | ["cfglist-parse", b] =>
    match unhex b with
    | some b => match parseConfigList b with
      | some cs => "ok " ++ ";".intercalate (cs.map showSpec)
      | none => "err"
    | none => "bad-op"
  | ["cfglist-wf", b] =>
    match unhex b with
    | some b => if Spec.isECHConfigList b then "S ok" else "S fail isECHConfigList"
    | none => "bad-op"
  | _ => "bad-op"

partial def loop (h : IO.FS.Stream) (out : IO.FS.Stream) : IO Unit := do
  let line ← h.getLine
  if line.isEmpty then return ()
  let toks := (line.trimAscii.toString.splitOn " ").filter (· ≠ "")
  out.putStrLn (handle toks)
  loop h out

end Drv

def main : IO Unit := do
  let out ← IO.getStdout
  Drv.loop (← IO.getStdin) out
  out.flush
