import EchVerif.Wire
